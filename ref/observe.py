"""The only adaptor that looks at hszinc objects: hszinc value -> neutral form (observe) and neutral
form -> hszinc value (build).  Classification is by type in a fixed order of its own and by reading
attributes; hszinc's __eq__ is never called."""
import datetime

import pytz

from . import neutral as N

EPOCH = datetime.datetime(1970, 1, 1, tzinfo=datetime.timezone.utc)
US = datetime.timedelta(microseconds=1)


class Unobservable(Exception):
    pass


def hzone(tzinfo):
    z = getattr(tzinfo, 'zone', None)
    if z is None:
        return None
    return z.rsplit('/', 1)[-1]


def observe(v, hs):
    if v is None:
        return N.NULL
    if v is hs.MARKER:
        return N.MARKER
    if v is hs.REMOVE:
        return N.REMOVE
    if v is hs.NA:
        return N.NA
    t = type(v)
    if t is bool:
        return ('bool', v)
    if t in (int, float):
        return N.num(v)
    if isinstance(v, hs.Quantity):
        val = v.value
        if type(val) not in (int, float):
            raise Unobservable('quantity value %r' % (val,))
        return N.num(val, v.unit)
    if t is hs.Uri:
        return ('uri', str.__str__(v))
    if t is hs.Bin:
        return ('bin', str.__str__(v))
    if t is str:
        return ('str', v)
    if t is hs.Ref:
        return ('ref', v.name, v.value if v.has_value else None)
    if t is hs.XStr:
        d = v.data
        if isinstance(d, (bytes, bytearray)):
            d = bytes(d)
        return ('xstr', v.encoding, d)
    if t is hs.Coordinate:
        return ('coord', float(v.latitude), float(v.longitude))
    if isinstance(v, datetime.datetime):
        if v.tzinfo is None:
            return ('naive-dt', v.isoformat())
        off = v.utcoffset()
        return ('dt', (v - EPOCH) // US, int(off.total_seconds()), hzone(v.tzinfo))
    if isinstance(v, datetime.date):
        return ('date', v.year, v.month, v.day)
    if isinstance(v, datetime.time):
        return ('time', v.hour, v.minute, v.second, v.microsecond)
    if t is list:
        return ('list', tuple(observe(x, hs) for x in v))
    if isinstance(v, hs.Grid):
        return observe_grid(v, hs)
    if t is dict or t.__name__ in ('SortableDict', 'MetadataObject'):
        return N.mkdict((k, observe(x, hs)) for k, x in v.items())
    raise Unobservable('%s: %r' % (t.__name__, v))


def observe_grid(g, hs):
    cols = [(name, tuple((k, observe(x, hs)) for k, x in meta.items())) for name, meta in g.column.items()]
    names = [c[0] for c in cols]
    rows = []
    for row in g:
        extra = [k for k in row.keys() if k not in names]
        cells = [observe(row.get(c), hs) for c in names]
        if extra:
            cells.append(('extra-keys', tuple(sorted(extra))))
        rows.append(tuple(cells))
    return N.mkgrid(str(g.version), [(k, observe(x, hs)) for k, x in g.metadata.items()], cols, rows)


# ---------------------------------------------------------------------------------------------------
# neutral -> hszinc

OLSON = {'UTC': 'UTC', 'London': 'Europe/London', 'New_York': 'America/New_York', 'Kathmandu': 'Asia/Kathmandu',
         'Lord_Howe': 'Australia/Lord_Howe', 'GMT+5': 'Etc/GMT+5', 'Paris': 'Europe/Paris', 'Sydney': 'Australia/Sydney',
         'Kolkata': 'Asia/Kolkata', 'Sao_Paulo': 'America/Sao_Paulo', 'Chatham': 'Pacific/Chatham', 'St_Johns': 'America/St_Johns',
         'Marquesas': 'Pacific/Marquesas', 'Caracas': 'America/Caracas', 'Adelaide': 'Australia/Adelaide', 'Los_Angeles': 'America/Los_Angeles'}


def olson(hname):
    return OLSON[hname]


def mkdt(utc_us, offset_s, zone):
    base = EPOCH + utc_us * US
    if zone is not None:
        dt = base.astimezone(pytz.timezone(olson(zone)))
        if int(dt.utcoffset().total_seconds()) != offset_s:
            raise ValueError('catalogue inconsistency: %r offset %r != %r' % (zone, dt.utcoffset(), offset_s))
        return dt
    return base.astimezone(datetime.timezone(datetime.timedelta(seconds=offset_s)))


def build(n, hs, hint=None):
    """Construct the hszinc value a neutral form denotes.  hint: 'int' builds a Python int,
    'qty' wraps a unit-less number in a Quantity."""
    k = n[0]
    if k == 'null':
        return None
    if k == 'marker':
        return hs.MARKER
    if k == 'remove':
        return hs.REMOVE
    if k == 'na':
        return hs.NA
    if k == 'bool':
        return n[1]
    if k == 'num':
        if n[2] is not None:
            return hs.Quantity(n[1], n[2])
        if hint == 'int':
            return int(n[1])
        if hint == 'qty':
            return hs.Quantity(n[1], None)
        if hint == 'qty-empty':
            return hs.Quantity(n[1], '')
        return n[1]
    if k == 'str':
        return n[1]
    if k == 'uri':
        return hs.Uri(n[1])
    if k == 'bin':
        return hs.Bin(n[1])
    if k == 'ref':
        return hs.Ref(n[1], n[2]) if n[2] is not None else hs.Ref(n[1])
    if k == 'xstr':
        enc, d = n[1], n[2]
        if enc == 'hex':
            return hs.XStr('hex', d.hex())
        if enc == 'b64':
            import base64
            return hs.XStr('b64', base64.b64encode(d).decode('ascii'))
        return hs.XStr(enc, d)
    if k == 'date':
        return datetime.date(n[1], n[2], n[3])
    if k == 'time':
        return datetime.time(n[1], n[2], n[3], n[4])
    if k == 'dt':
        return mkdt(n[1], n[2], n[3])
    if k == 'coord':
        return hs.Coordinate(n[1], n[2])
    if k == 'list':
        return [build(x, hs) for x in n[1]]
    if k == 'dict':
        return {kk: build(x, hs) for kk, x in n[1]}
    if k == 'grid':
        return build_grid(n, hs)
    raise ValueError(n)


def build_grid(n, hs, hints=None):
    _, ver, meta, cols, rows = n
    hints = hints or {}
    columns = [(name, [(kk, build(v, hs, hints.get(('col', name, kk)))) for kk, v in cmeta]) for name, cmeta in cols]
    g = hs.Grid(version=ver, columns=columns)
    for kk, v in meta:
        g.metadata[kk] = build(v, hs, hints.get(('meta', kk)))
    names = [c[0] for c in cols]
    for i, r in enumerate(rows):
        row = {}
        for name, cell in zip(names, r):
            if cell == N.NULL and hints.get(('absent', i, name)):
                continue
            row[name] = build(cell, hs, hints.get(('cell', i, name)))
        g.append(row)
    return g
