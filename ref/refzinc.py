# -*- coding: utf-8 -*-
"""Independent ZINC reader (strict on MUST, lenient on MAY — DESIGN Appendix A) and writer with a
spelling-choice callback.  Works on neutral forms; imports nothing from hszinc or pyparsing."""
import base64
import datetime
import re
from decimal import Decimal

from . import neutral as N
from . import refversion

EPOCH = datetime.datetime(1970, 1, 1)
US = datetime.timedelta(microseconds=1)


class RefZincError(ValueError):
    pass


ID_RE = re.compile(r'[a-z][a-zA-Z0-9_]*')
NUM_RE = re.compile(r'-?[0-9][0-9_]*(?:\.[0-9][0-9_]*)?(?:[eE][+-]?[0-9][0-9_]*)?')
UNIT_RE = re.compile(u'(?:[a-zA-Z%_/$]|[\u0080-\U0010ffff])+')
DATE_RE = re.compile(r'(\d{4})-(\d{2})-(\d{2})')
TIME_RE = re.compile(r'(\d{2}):(\d{2}):(\d{2})(?:\.(\d+))?')
DT_RE = re.compile(r'(\d{4})-(\d{2})-(\d{2})[Tt](\d{2}):(\d{2}):(\d{2})(?:\.(\d+))?([Zz]|[+-]\d{2}:\d{2})(?: ([A-Z][a-zA-Z0-9_\-+]*))?')
COORD_RE = re.compile(r'C\( *(-?\d+(?:\.\d+)?) *, *(-?\d+(?:\.\d+)?) *\)')
REF_RE = re.compile(r'@([a-zA-Z0-9_:\-.~]+)')
XSTR_RE = re.compile(r'([a-zA-Z][a-zA-Z0-9_]*)\((?=")')
BIN_RE = re.compile(r'Bin\(([\x20-\x27\x2a-\x7f]*)\)')
STR_ESC = {'b': '\b', 'f': '\f', 'n': '\n', 'r': '\r', 't': '\t', '"': '"', '\\': '\\', '$': '$'}
URI_ESC = set(':/?#[]@&=;`\\')
URI_ESC_LENIENT = {'b': '\b', 'f': '\f', 'n': '\n', 'r': '\r', 't': '\t'}
HEX4 = re.compile(r'[0-9a-fA-F]{4}')


_ZONE_CACHE = {}


def zone_offset_consistent(utc_us, offs, zone):
    """A date-time that names a zone must carry the offset that zone has at that instant (pytz is the
    oracle).  Unknown zone names cannot be judged and pass."""
    import pytz
    if zone not in _ZONE_CACHE:
        _ZONE_CACHE[zone] = [pytz.timezone(z) for z in pytz.all_timezones if z == zone or z.rsplit('/', 1)[-1] == zone]
    tzs = _ZONE_CACHE[zone]
    if not tzs:
        return True
    try:
        inst = datetime.datetime(1970, 1, 1, tzinfo=datetime.timezone.utc) + utc_us * US
    except OverflowError:
        return True
    for tz in tzs:
        try:
            if int(inst.astimezone(tz).utcoffset().total_seconds()) == offs:
                return True
        except (OverflowError, ValueError):
            return True
    return False


def _frac_us(frac):
    if not frac:
        return 0
    return int(frac[:6].ljust(6, '0'))


class Reader(object):
    def __init__(self, text):
        self.s = text
        self.i = 0
        self.n = len(text)

    def err(self, msg):
        raise RefZincError('%s at %d: %r' % (msg, self.i, self.s[max(0, self.i - 10):self.i + 15]))

    def eof(self):
        return self.i >= self.n

    def at(self, lit):
        return self.s.startswith(lit, self.i)

    def eat(self, lit):
        if not self.at(lit):
            self.err('expected %r' % lit)
        self.i += len(lit)

    def blanks(self):
        while self.i < self.n and self.s[self.i] == ' ':
            self.i += 1

    def at_nl(self):
        return self.at('\n') or self.at('\r\n')

    def nl(self):
        if self.at('\r\n'):
            self.i += 2
        elif self.at('\n'):
            self.i += 1
        else:
            self.err('expected newline')

    def m(self, rx):
        mo = rx.match(self.s, self.i)
        if mo:
            self.i = mo.end()
        return mo

    # --- document ------------------------------------------------------------------------------
    def document(self):
        grids = []
        while self.at_nl():
            self.nl()
        while not self.eof():
            grids.append(self.grid(False))
            while self.at_nl():
                self.nl()
        return grids

    def grid(self, nested):
        self.eat('ver:')
        if not self.at('"'):
            self.err('version must be a string')
        ver = self.string()
        try:
            v3 = refversion.cmp(ver, '3.0') >= 0
        except ValueError:
            self.err('bad version %r' % ver)
        meta = self.meta(v3)
        self.blanks()
        self.nl()
        cols = []
        while True:
            mo = self.m(ID_RE)
            if not mo:
                self.err('column name expected')
            cols.append((mo.group(0), self.meta(v3)))
            if not self.sep():
                break
        if len(set(c[0] for c in cols)) != len(cols):
            self.err('duplicate column')
        self.blanks()
        if self.eof() or (nested and self.at('>>')):
            return N.mkgrid(ver, meta, cols, [])
        self.nl()
        rows = []
        while not self.eof() and not self.at_nl() and not (nested and self.at('>>')):
            cells = []
            while True:
                cells.append(self.cell(v3))
                if not self.sep():
                    break
            self.blanks()
            if len(cells) != len(cols):
                self.err('row has %d cells for %d columns' % (len(cells), len(cols)))
            rows.append(tuple(cells))
            if self.eof() or (nested and self.at('>>')):
                break
            self.nl()
        return N.mkgrid(ver, meta, cols, rows)

    def sep(self):
        j = self.i
        while j < self.n and self.s[j] == ' ':
            j += 1
        if j < self.n and self.s[j] == ',':
            j += 1
            while j < self.n and self.s[j] == ' ':
                j += 1
            self.i = j
            return True
        return False

    def meta(self, v3):
        items = []
        while self.at(' ') and ID_RE.match(self.s, self.i + 1):
            self.i += 1
            items.append(self.tag(v3, allow_blank_colon=True))
        if len(set(k for k, _ in items)) != len(items):
            self.err('duplicate tag')
        return items

    def tag(self, v3, allow_blank_colon=False):
        name = self.m(ID_RE).group(0)
        j = self.i
        if allow_blank_colon:
            while j < self.n and self.s[j] == ' ':
                j += 1
        if j < self.n and self.s[j] == ':':
            self.i = j + 1
            self.blanks()
            return (name, self.value(v3))
        return (name, N.MARKER)

    def cell(self, v3):
        if self.eof() or self.at(',') or self.at_nl() or self.at(' ,'):
            j = self.i
            while j < self.n and self.s[j] == ' ':
                j += 1
            if j >= self.n or self.s[j] in ',\n\r':
                return N.NULL
        return self.value(v3)

    # --- values --------------------------------------------------------------------------------
    def value(self, v3):
        if self.eof():
            self.err('value expected')
        c = self.s[self.i]
        if c == '"':
            return ('str', self.string())
        if c == '`':
            return ('uri', self.uri())
        if c == '@':
            mo = self.m(REF_RE)
            if not mo:
                self.err('bad ref')
            if self.at(' "'):
                self.i += 1
                return ('ref', mo.group(1), self.string())
            return ('ref', mo.group(1), None)
        if c == '[':
            if not v3:
                self.err('list under pre-3.0 version')
            return self.list_(v3)
        if c == '{':
            if not v3:
                self.err('dict under pre-3.0 version')
            return self.dict_(v3)
        if self.at('<<'):
            if not v3:
                self.err('nested grid under pre-3.0 version')
            self.i += 2
            self.blanks()
            if self.at_nl():
                self.nl()
            g = self.grid(True)
            self.blanks()
            self.eat('>>')
            return g
        if self.at('C('):
            mo = self.m(COORD_RE)
            if not mo:
                self.err('bad coordinate')
            return ('coord', float(mo.group(1)), float(mo.group(2)))
        if self.at('Bin('):
            if not v3:
                mo = self.m(BIN_RE)
                if not mo:
                    self.err('bad bin')
                return ('bin', mo.group(1))
            if not self.at('Bin("'):
                self.err('Bin(mime) is not a 3.0 literal')
        mo = XSTR_RE.match(self.s, self.i)
        if mo:
            if not v3:
                self.err('xstr under pre-3.0 version')
            self.i = mo.end()
            payload = self.string()
            self.eat(')')
            typ = mo.group(1)
            if typ == 'hex':
                try:
                    return ('xstr', 'hex', bytes.fromhex(payload))
                except ValueError:
                    self.err('bad hex payload')
            if typ == 'b64':
                try:
                    return ('xstr', 'b64', base64.b64decode(payload, validate=True))
                except Exception:
                    self.err('bad base64 payload')
            return ('xstr', typ, payload)
        for kw, val in (('NaN', N.num(float('nan'))), ('NA', N.NA), ('N', N.NULL), ('M', N.MARKER), ('R', N.REMOVE),
                        ('T', ('bool', True)), ('F', ('bool', False)), ('INF', N.num(float('inf'))), ('-INF', N.num(float('-inf')))):
            if self.at(kw):
                j = self.i + len(kw)
                if j >= self.n or self.s[j] in ', \n\r]}>':
                    if kw == 'NA' and not v3:
                        self.err('NA under pre-3.0 version')
                    self.i = j
                    return val
        if c.isdigit() or c == '-':
            mo = self.m(DT_RE)
            if mo:
                return self._dt(mo)
            mo = self.m(DATE_RE)
            if mo:
                y, mth, d = map(int, mo.groups())
                try:
                    datetime.date(y, mth, d)
                except ValueError:
                    self.err('bad date')
                return ('date', y, mth, d)
            mo = self.m(TIME_RE)
            if mo:
                h, mi, s = int(mo.group(1)), int(mo.group(2)), int(mo.group(3))
                if h > 23 or mi > 59 or s > 59:
                    self.err('bad time')
                return ('time', h, mi, s, _frac_us(mo.group(4)))
            mo = self.m(NUM_RE)
            if mo:
                v = float(mo.group(0).replace('_', ''))
                um = self.m(UNIT_RE)
                return N.num(v, um.group(0) if um else None)
        self.err('unrecognised value')

    def _dt(self, mo):
        y, mth, d, h, mi, s = [int(x) for x in mo.groups()[:6]]
        us = _frac_us(mo.group(7))
        off = mo.group(8)
        if off in 'Zz':
            offs = 0
        else:
            oh, om = int(off[1:3]), int(off[4:6])
            if om > 59 or oh > 23:
                self.err('bad offset')
            offs = (oh * 3600 + om * 60) * (1 if off[0] == '+' else -1)
        try:
            local = datetime.datetime(y, mth, d, h, mi, s, us)
        except ValueError:
            self.err('bad date-time')
        utc_us = (local - EPOCH) // US - offs * 1000000
        if mo.group(9) is not None and not zone_offset_consistent(utc_us, offs, mo.group(9)):
            self.err('offset %+d s is not the offset of zone %s at that instant' % (offs, mo.group(9)))
        return ('dt', utc_us, offs, mo.group(9))

    def string(self):
        self.eat('"')
        out = []
        while True:
            if self.eof():
                self.err('unterminated string')
            c = self.s[self.i]
            if c == '"':
                self.i += 1
                return ''.join(out)
            if c == '\\':
                e = self.s[self.i + 1:self.i + 2]
                if e in STR_ESC and e:
                    out.append(STR_ESC[e])
                    self.i += 2
                elif e in ('u', 'U') and HEX4.match(self.s, self.i + 2):
                    out.append(chr(int(self.s[self.i + 2:self.i + 6], 16)))
                    self.i += 6
                else:
                    self.err('illegal string escape')
            elif ord(c) < 0x20:
                self.err('raw control character U+%04X in string' % ord(c))
            else:
                out.append(c)
                self.i += 1

    def uri(self):
        self.eat('`')
        out = []
        while True:
            if self.eof():
                self.err('unterminated uri')
            c = self.s[self.i]
            if c == '`':
                self.i += 1
                return ''.join(out)
            if c == '\\':
                e = self.s[self.i + 1:self.i + 2]
                if e and e in URI_ESC:
                    out.append(e)
                    self.i += 2
                elif e in URI_ESC_LENIENT:
                    out.append(URI_ESC_LENIENT[e])
                    self.i += 2
                elif e in ('u', 'U') and HEX4.match(self.s, self.i + 2):
                    out.append(chr(int(self.s[self.i + 2:self.i + 6], 16)))
                    self.i += 6
                else:
                    self.err('illegal uri escape')
            elif ord(c) < 0x20:
                self.err('raw control character U+%04X in uri' % ord(c))
            else:
                out.append(c)
                self.i += 1

    def list_(self, v3):
        self.eat('[')
        self.blanks()
        items = []
        if self.at(']'):
            self.i += 1
            return ('list', ())
        while True:
            items.append(self.value(v3))
            had_sep = self.sep()
            self.blanks()
            if self.at(']'):
                self.i += 1
                return ('list', tuple(items))
            if not had_sep:
                self.err('expected , or ]')

    def dict_(self, v3):
        self.eat('{')
        self.blanks()
        items = []
        while not self.at('}'):
            if not ID_RE.match(self.s, self.i):
                self.err('tag name expected')
            items.append(self.tag(v3))
            j = self.i
            self.blanks()
            if self.at(','):          # comma between tags: MAY
                self.i += 1
                self.blanks()
            elif self.i == j and not self.at('}'):
                self.err('expected blank or }')
        self.i += 1
        if len(set(k for k, _ in items)) != len(items):
            self.err('duplicate tag')
        return N.mkdict(items)


def read(text):
    """-> list of neutral grids; raises RefZincError on anything outside the grammar."""
    return Reader(text).document()


def read_scalar(text, ver='3.0'):
    r = Reader(text)
    v = r.value(refversion.cmp(ver, '3.0') >= 0)
    if not r.eof():
        r.err('trailing text')
    return v


# -------------------------------------------------------------------------------------------------
# writer

def default_sp(label, alts):
    return alts[0]


def num_spellings(v):
    """Legal decimal spellings of the float v (canonical first), all verified to denote v."""
    r = repr(float(v))
    alts = [r.replace('e+', 'e') if 'e' in r else r]
    if 'e' in r:
        alts.append(r.replace('e', 'E'))
    if v == int(v) and abs(v) < 1e15 and 'e' not in r:
        i = '%d' % v
        if i not in alts and not (v == 0 and r.startswith('-')):
            alts.append(i)
        if abs(v) >= 1000:
            alts.append('{:_}'.format(int(v)))
    if 'e' not in r and 'n' not in r:
        # digits := [0-9][0-9_]* : a separator may be doubled and may end a digit run
        ip, _, fp = alts[0].partition('.')
        sign, digits = ('-', ip[1:]) if ip.startswith('-') else ('', ip)
        if len(digits) >= 2:
            alts.append(sign + digits[0] + '__' + digits[1:] + ('.' + fp if fp else ''))
        alts.append(sign + digits + '_' + ('.' + fp if fp else ''))
        if fp:
            alts.append(sign + digits + '.' + fp + '_')
    if v != 0 and 'e' not in r:
        t = Decimal(r).normalize().as_tuple()
        digits = ''.join(map(str, t.digits))
        sign = '-' if t.sign else ''
        exp = t.exponent
        alts.append('%s%se%d' % (sign, digits, exp))
        alts.append('%s%sE%+d' % (sign, digits, exp))
        if len(digits) == 1:
            alts.append('%s%s.0e%d' % (sign, digits, exp))
        else:
            alts.append('%s%s.%se%d' % (sign, digits[0], digits[1:], exp + len(digits) - 1))
    out = []
    for a in alts:
        try:
            if float(a.replace('_', '')) == v and NUM_RE.fullmatch(a) and a not in out:
                out.append(a)
        except ValueError:
            pass
    return out or [r]


STR_SHORT = {'\b': '\\b', '\f': '\\f', '\n': '\\n', '\r': '\\r', '\t': '\\t', '"': '\\"', '\\': '\\\\', '$': '\\$'}


def str_char_spellings(c):
    o = ord(c)
    alts = []
    if c in STR_SHORT:
        alts.append(STR_SHORT[c])
    elif o >= 0x20:
        alts.append(c)
    if o <= 0xffff:
        alts.append('\\u%04x' % o)
        if '\\u%04X' % o != '\\u%04x' % o:
            alts.append('\\u%04X' % o)
    return alts


def uri_char_spellings(c):
    o = ord(c)
    alts = []
    if c in '`\\':
        alts.append('\\' + c)
    elif o >= 0x20:
        alts.append(c)
    if c in ':/?[]@&=;':
        alts.append('\\' + c)
    if o <= 0xffff:
        alts.append('\\u%04x' % o)
    return alts


class Writer(object):
    def __init__(self, sp=None):
        self.sp = sp or default_sp

    def string(self, s, p):
        return '"' + ''.join(self.sp('%s.ch%d' % (p, i), str_char_spellings(c)) for i, c in enumerate(s)) + '"'

    def uri(self, s, p):
        return '`' + ''.join(self.sp('%s.ch%d' % (p, i), uri_char_spellings(c)) for i, c in enumerate(s)) + '`'

    def sepr(self, p):
        return self.sp(p + '.sep', [',', ', ', ' ,', ' , '])

    def value(self, n, p, ver='3.0'):
        k = n[0]
        sp = self.sp
        if k == 'null':
            return 'N'
        if k == 'marker':
            return 'M'
        if k == 'remove':
            return 'R'
        if k == 'na':
            return 'NA'
        if k == 'bool':
            return 'T' if n[1] else 'F'
        if k == 'num':
            v = n[1]
            if v != v:
                t = 'NaN'
            elif v in (float('inf'), float('-inf')):
                t = 'INF' if v > 0 else '-INF'
            else:
                t = sp(p + '.num', num_spellings(v))
            return t + (n[2] or '')
        if k == 'str':
            return self.string(n[1], p + '.str')
        if k == 'uri':
            return self.uri(n[1], p + '.uri')
        if k == 'bin':
            return 'Bin(%s)' % n[1]
        if k == 'ref':
            if n[2] is None:
                return '@' + n[1]
            return '@%s %s' % (n[1], self.string(n[2], p + '.dis'))
        if k == 'xstr':
            d = n[2]
            if n[1] == 'hex':
                d = sp(p + '.hexcase', [d.hex(), d.hex().upper()]) if d.hex() != d.hex().upper() else d.hex()
            elif n[1] == 'b64':
                d = base64.b64encode(d).decode('ascii')
            return '%s(%s)' % (n[1], self.string(d, p + '.xstr'))
        if k == 'date':
            return '%04d-%02d-%02d' % n[1:4]
        if k == 'time':
            return '%02d:%02d:%02d' % n[1:4] + self.frac(n[4], p)
        if k == 'dt':
            return self.dt(n, p)
        if k == 'coord':
            return 'C(%s,%s)' % (self.deg(n[1]), self.deg(n[2]))
        if k == 'list':
            if not n[1]:
                return sp(p + '.empty', ['[]', '[ ]'])
            style = sp(p + '.list', ['plain', 'trailing', 'padded'])
            items = [self.value(x, '%s[%d]' % (p, i), ver) for i, x in enumerate(n[1])]
            body = items[0]
            for i, it in enumerate(items[1:]):
                body += self.sepr('%s[%d]' % (p, i)) + it
            if style == 'trailing':
                return '[' + body + sp(p + '.tsep', [',', ' ,', ', ', ' , ']) + ']'
            if style == 'padded':
                return '[ ' + body + ' ]'
            return '[' + body + ']'
        if k == 'dict':
            if not n[1]:
                return sp(p + '.empty', ['{}', '{ }'])
            style = sp(p + '.dict', ['plain', 'padded', 'wide', 'colonblank'])
            tags = []
            for kk, v in n[1]:
                if v == N.MARKER:
                    tags.append(sp('%s.%s.m' % (p, kk), [kk, kk + ':M']))
                else:
                    tags.append(kk + (': ' if style == 'colonblank' else ':') + self.value(v, '%s.%s' % (p, kk), ver))
            body = ('  ' if style == 'wide' else ' ').join(tags)
            return '{ ' + body + ' }' if style in ('padded', 'wide') else '{' + body + '}'
        if k == 'grid':
            return '<<' + self.grid(n, p + '.g', nested=True) + '>>'
        raise ValueError(n)

    def deg(self, v):
        r = repr(float(v))
        if 'e' in r:
            r = '%.10f' % v
        return r

    def frac(self, us, p):
        if us == 0:
            return self.sp(p + '.frac', ['', '.0', '.000', '.000000'])
        full = '%06d' % us
        short = full.rstrip('0')
        alts = [short]
        for w in (3, 6, 9):
            if w > len(short):
                alts.append(full.ljust(w, '0')[:w] if w <= 6 else full + '0' * (w - 6))
        # 7-9 digit fractions are MAY: only the <= 6 digit forms are offered
        alts = [a for a in alts if len(a) <= 6]
        out = []
        for a in alts:
            if a not in out:
                out.append(a)
        return '.' + self.sp(p + '.frac', out)

    def dt(self, n, p):
        _, utc_us, offs, zone = n
        local = EPOCH + (utc_us + offs * 1000000) * US
        t = self.sp(p + '.T', ['T', 't'])
        s = '%04d-%02d-%02d%s%02d:%02d:%02d' % (local.year, local.month, local.day, t, local.hour, local.minute, local.second)
        s += self.frac(local.microsecond, p)
        if offs == 0:
            s += self.sp(p + '.Z', ['Z', 'z', '+00:00', '-00:00'])
        else:
            a = abs(offs)
            s += '%s%02d:%02d' % ('+' if offs > 0 else '-', a // 3600, (a % 3600) // 60)
        if zone is not None:
            s += ' ' + zone
        return s

    def meta(self, items, p, ver):
        out = ''
        for kk, v in items:
            if v == N.MARKER:
                out += ' ' + self.sp('%s.%s.m' % (p, kk), [kk, kk + ':M'])
            else:
                out += ' %s:%s' % (kk, self.value(v, '%s.%s' % (p, kk), ver))
        return out

    def grid(self, g, p, nested=False, nl=None):
        _, ver, meta, cols, rows = g
        sp = self.sp
        if nl is None:
            nl = sp(p + '.nl', ['\n', '\r\n'])
        tb = lambda q: sp(q + '.tb', ['', ' ', '  '])  # noqa: E731  trailing blanks before the line end
        # the version string is always spelled plainly (escapes inside it are not part of the claimed alphabet)
        s = 'ver:"%s"' % ver + self.meta(meta, p + '.meta', ver) + tb(p + '.hdr') + nl
        line = ''
        for i, (c, cm) in enumerate(cols):
            if i:
                line += self.sepr('%s.col%d' % (p, i))
            line += c + self.meta(cm, '%s.col(%s)' % (p, c), ver)
        s += line + tb(p + '.cols') + nl
        for ri, r in enumerate(rows):
            line = ''
            for ci, cell in enumerate(r):
                q = '%s.r%d.c%d' % (p, ri, ci)
                if ci:
                    line += self.sepr(q)
                if cell == N.NULL:
                    line += sp(q + '.null', ['N', '']) if len(r) > 1 else 'N'
                else:
                    line += self.value(cell, q, ver)
            s += line + tb('%s.r%d' % (p, ri)) + nl
        return s

    def document(self, grids, p='doc'):
        sp = self.sp
        nl = sp(p + '.nl', ['\n', '\r\n'])
        parts = [self.grid(g, '%s.g%d' % (p, i), nl=nl) for i, g in enumerate(grids)]
        out = ''
        for i, part in enumerate(parts):
            if i:
                out += nl * sp('%s.gap%d' % (p, i), [1, 2, 3])
            out += part
        if parts:
            final = sp(p + '.final', ['nl', 'none', 'blank'])
            if final == 'none':
                out = out[:-len(nl)]
            elif final == 'blank':
                out += nl
        return out


def write(grids, sp=None):
    return Writer(sp).document(grids)


def write_scalar(n, sp=None, ver='3.0'):
    return Writer(sp).value(n, 'v', ver)
