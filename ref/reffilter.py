# -*- coding: utf-8 -*-
"""Three-valued (True / False / None = don't-care) reference evaluator for Haystack filters, and a
renderer of filter ASTs to text with spacing / parenthesis variation.  The AST is built by the
generator itself, so no reference *parser* is needed.  Imports nothing from hszinc.

AST:  ('has', path) ('not', path) ('cmp', op, path, literal) ('and', l, r) ('or', l, r)
      path = tuple of tag names; literal = neutral value (ref/neutral.py)
Row model: dict tag -> neutral value; a grid is a list of rows; row ids are ('str', s) or ('ref', name, dis).
"""
from . import neutral as N

ABSENT = ('absent',)
ORDERED = ('num', 'str', 'date', 'time', 'dt')


def find_row(rows, ref):
    """Row whose id is the reference or whose id's text equals the reference name."""
    name = ref[1]
    for r in rows:
        i = r.get('id')
        if i is None:
            continue
        if (i[0] == 'ref' and i[1] == name) or (i[0] == 'str' and i[1] == name):
            return r
    return None


def lookup(path, row, rows):
    """-> neutral value, ABSENT, or 'skip' (intermediate value is not a reference: outside the statement)."""
    cur = row
    for i, name in enumerate(path):
        if name not in cur:
            return ABSENT
        v = cur[name]
        if i == len(path) - 1:
            return v
        if v[0] != 'ref':
            return 'skip'
        nxt = find_row(rows, v)
        if nxt is None:
            return ABSENT
        cur = nxt
    return ABSENT


def _key(v):
    k = v[0]
    if k == 'num':
        return v[1]
    if k == 'str':
        return v[1]
    if k == 'date':
        return v[1:4]
    if k == 'time':
        return v[1:5]
    if k == 'dt':
        return v[1]
    return None


def atom(op, x, lit):
    """Truth of `x op lit` for a present value x (three-valued)."""
    if x == N.NULL:
        return None
    kx, kl = x[0], lit[0]
    if kx == 'num' and kl == 'num':
        if x[2] != lit[2]:
            if op == '==' and x[2] is not None and lit[2] is not None:
                return False                 # two quantities in different units are not equal
            return None                      # plain number vs quantity / order across units: not pinned
        if x[1] != x[1] or lit[1] != lit[1]:
            return None                      # NaN
    if {kx, kl} <= {'num', 'bool'} and kx != kl:
        return None                          # Python's numeric tower: not pinned
    if op in ('==', '!='):
        if kx != kl:
            eq = False
        elif kx == 'dt':
            eq = x[1] == lit[1]
        elif kx == 'xstr':
            eq = None if x[2] == lit[2] and x[1] != lit[1] else (x[2] == lit[2])
        elif kx in ('list', 'dict', 'grid', 'coord'):
            eq = N.same(x, lit, 'exact') is None and N.same(lit, x, 'exact') is None
        else:
            eq = x == lit
        if eq is None:
            return None
        return eq if op == '==' else (not eq)
    # ordering
    if kx != kl and {kx, kl} <= {'str', 'uri', 'bin'}:
        return None                          # text-like kinds are str subclasses in hszinc: their mutual order is not pinned
    if kx != kl:
        return False                         # incomparable kinds: false, not an error
    if kx not in ORDERED:
        return None                          # ordering inside an unordered kind (bool, list, uri ...): not pinned
    a, b = _key(x), _key(lit)
    return {'<': a < b, '<=': a <= b, '>': a > b, '>=': a >= b}[op]


def evaluate(ast, row, rows):
    """True / False / None (don't-care) / 'skip'."""
    t = ast[0]
    if t in ('has', 'not'):
        v = lookup(ast[1], row, rows)
        if v == 'skip':
            return 'skip'
        if v == ABSENT:
            return t == 'not'
        if v == N.NULL:
            return None
        return t == 'has'
    if t == 'cmp':
        v = lookup(ast[2], row, rows)
        if v == 'skip':
            return 'skip'
        if v == ABSENT:
            return False
        return atom(ast[1], v, ast[3])
    l, r = evaluate(ast[1], row, rows), evaluate(ast[2], row, rows)
    if 'skip' in (l, r):
        return 'skip'
    if t == 'and':
        if l is False or r is False:
            return False
        if l is None or r is None:
            return None
        return True
    if t == 'or':
        if l is True or r is True:
            return True
        if l is None or r is None:
            return None
        return False
    raise ValueError(ast)


# ---------------------------------------------------------------------------------------------------
# rendering

def lit_text(n):
    """Filter-literal spelling of a neutral value (the filter grammar's own literal forms)."""
    from . import refzinc
    k = n[0]
    if k == 'bool':
        return 'true' if n[1] else 'false'
    if k == 'num' and n[1] == n[1] and n[1] not in (float('inf'), float('-inf')):
        r = repr(n[1])
        if r.endswith('.0'):
            r = r[:-2]
        return r + (n[2] or '')
    return refzinc.write_scalar(n)


def render(ast, style='min', sp=' ', top=True):
    """style: 'min' = only the parentheses precedence/associativity require, 'full' = every binary node,
    'redundant' = every node incl. leaves.  sp = blank(s) between tokens."""
    t = ast[0]
    if t == 'has':
        s = '->'.join(ast[1])
    elif t == 'not':
        s = 'not' + sp + '->'.join(ast[1])
    elif t == 'cmp':
        s = '->'.join(ast[2]) + sp + ast[1] + sp + lit_text(ast[3])
    else:
        l, r = ast[1], ast[2]
        ls, rs = render(l, style, sp, False), render(r, style, sp, False)
        if style == 'min':
            # and binds tighter than or; both left-associative
            if t == 'and':
                if l[0] == 'or':
                    ls = '(' + ls + ')'
                if r[0] in ('or', 'and'):
                    rs = '(' + rs + ')'
            else:
                if r[0] == 'or':
                    rs = '(' + rs + ')'
        elif style == 'full':
            if l[0] in ('and', 'or'):
                ls = '(' + ls + ')'
            if r[0] in ('and', 'or'):
                rs = '(' + rs + ')'
        s = ls + sp + t + sp + rs
        if style == 'redundant' and not top:
            return '(' + sp.strip() + s + sp.strip() + ')' if False else '(' + s + ')'
        return s
    if style == 'redundant':
        return '(' + s + ')'
    return s


def trees(leaves, ops=('and', 'or')):
    """All binary and/or trees over the given leaf sequence (in order)."""
    if len(leaves) == 1:
        yield leaves[0]
        return
    for i in range(1, len(leaves)):
        for l in trees(leaves[:i], ops):
            for r in trees(leaves[i:], ops):
                for op in ops:
                    yield (op, l, r)
