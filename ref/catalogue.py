# -*- coding: utf-8 -*-
"""Value catalogue V: boundary payloads per value kind, as neutral forms (+ a build hint).

Entry fields: name, n (neutral), hint (see observe.build), minver ('2.0' | '3.0'), rep (member of the
reduced per-kind representative set used for pair enumeration in the quick tier), soft (outside the
must-hold domain: spec detail not settled, see DESIGN 8.4)."""
import datetime

import pytz

from . import neutral as N
from .observe import EPOCH, US, OLSON


class E(object):
    __slots__ = ('name', 'n', 'hint', 'minver', 'rep', 'soft')

    def __init__(self, name, n, hint=None, minver='2.0', rep=False, soft=False):
        self.name, self.n, self.hint, self.minver, self.rep, self.soft = name, n, hint, minver, rep, soft

    def __repr__(self):
        return 'E(%s)' % self.name


def _dt(zone, y, mo, d, h, mi, s, us=0):
    """Entry for the UTC instant y-mo-d h:mi:s.us seen in `zone` (Haystack name) — offset from pytz."""
    utc = datetime.datetime(y, mo, d, h, mi, s, us, tzinfo=datetime.timezone.utc)
    loc = utc.astimezone(pytz.timezone(OLSON[zone]))
    return ('dt', (utc - EPOCH) // US, int(loc.utcoffset().total_seconds()), zone)


def _fx(offset_min, y, mo, d, h, mi, s, us=0):
    utc = datetime.datetime(y, mo, d, h, mi, s, us, tzinfo=datetime.timezone.utc)
    return ('dt', (utc - EPOCH) // US, offset_min * 60, None)


def _build():
    V = []
    add = V.append
    add(E('null', N.NULL, rep=True))
    add(E('marker', N.MARKER, rep=True))
    add(E('remove', N.REMOVE, rep=True))
    add(E('na', N.NA, minver='3.0', rep=True))
    add(E('true', ('bool', True), rep=True))
    add(E('false', ('bool', False)))
    # numbers
    for i, (nm, v, hint) in enumerate([
            ('0', 0, 'int'), ('1', 1, 'int'), ('-1', -1, 'int'), ('2^31', 2 ** 31, 'int'), ('2^53', 2 ** 53, 'int'),
            ('0.0', 0.0, None), ('-0.0', -0.0, None), ('1.0', 1.0, None), ('-1.5', -1.5, None), ('0.1', 0.1, None),
            ('1/3', 1.0 / 3, None), ('1e-7', 1e-7, None), ('5e-324', 5e-324, None), ('1e22', 1e22, None),
            ('maxfloat', 1.7976931348623157e308, None), ('123456.789012', 123456.789012, None),
            ('1e16', 1e16, None), ('12345678.125', 12345678.125, None)]):
        add(E('num:' + nm, N.num(v), hint, rep=nm in ('1', '-1.5', '1e22')))
    # exponent-form doubles: fractional mantissa x exponents whose digits end in 0 / do not, both signs of the exponent; and doubles
    # that need all 17 significant digits (errors there exceed the 1e-6 tolerance only for large magnitudes)
    for v in [1.5e20, 1.5e21, 2.5e30, 1.25e100, 1.5e300, 1e20, 1e100, 2.5e-5, 2.5e-10, 1.5e-20, 1.25e-100, 1.5e-300, 1e-10, 1e-100,
              1700000000123.456, 1234567890.1234567, 0.30000000000000004, 4503599627370497.5, -1.5e20]:
        add(E('num:%r' % v, N.num(v), rep=v in (1.5e20, 2.5e-10)))
    add(E('qty:1.5e+20kW', N.num(1.5e20, 'kW')))
    add(E('num:inf', N.num(float('inf')), rep=True))
    add(E('num:-inf', N.num(float('-inf'))))
    add(E('num:nan', N.num(float('nan')), rep=True))
    add(E('qty:1.5kg', N.num(1.5, 'kg'), rep=True))
    add(E('qty:int kg', N.num(3, 'kg'), 'int'))
    for u in ['%', '$', 'm/s', u'°C', u'µg', 'kW_h', 'ft']:
        add(E('qty:-2.25' + u, N.num(-2.25, u), rep=(u == u'°C')))
    for u in [u'\u2126', u'k\u2126', u'\u212a', u'\u212b', u'e\u0301', u'\xb5\u03a9']:        # units are written raw: normalisation would show
        add(E('qty:7' + u, N.num(7.0, u), rep=(u == u'\u2126')))
    add(E('qty:1e22kg', N.num(1e22, 'kg'), rep=True))      # same magnitude as the representative plain number 1e22
    add(E('qty:1e-7kg', N.num(1e-7, 'kg')))
    add(E('qty:nounit', N.num(2.5), 'qty'))
    add(E('qty:emptyunit', N.num(2.5), 'qty-empty'))
    add(E('qty:_x', N.num(1.0, '_x'), soft=True))
    # strings
    strs = ['', 'a', ' ', 'a b', 'N', 'NA', 'T', 'F', 'M', 'R', 'INF', 'NaN', '-INF', '1', '1.5kg', '-1', '2020-01-01',
            '12:00:00', '@a', 'ver:"3.0"', 'C(1,2)', 'n:1', 'n:1 kg', 's:x', 'm:', 'z:', 'r:x', 'r:x y', 'u:x', 'b:x', 'x:a:b', 'x:', '-:',
            'd:2020-01-01', 'h:12:00', 't:2020-01-01T00:00:00Z UTC', 'c:1,2', '[1]', '{"a":1}', '"x"', '[', '{', '"', '\\', '\\"', '""', '\\\\',
            '$', '$$', '`', ',', ',,', ':', '\n', '\r\n', '\r', '\t', '\n\n', 'a\n\nb', '>>', '<<', '>>\n', ' a', 'a ', '\x00', '\x01', '\x1f', '\x7f', '\x08\x0c',
            u'é', u'\u0080', u' ', u' ', u'﻿', u'￿', u'\U0001f600', u'\ud800', '\\n', '\\u0041', '\\$', 'a"b,c', 'x\\', u'\\\u00e9', '\\\x01', 'C:\\data\\ubad0', '\\\\u0041', u'\U0001f600\\']
    # text that Unicode normalisation (NFC / NFKC) or case folding would rewrite: decomposed accent, OHM / KELVIN / ANGSTROM signs, a
    # ligature, a supplementary-plane character with a canonical mapping, dotless / dotted i, sharp s
    strs += [u'e\u0301', u'\u2126\u212a\u212b', u'\ufb01', u'\U0002f800', u'\u0130\u0131\xdf', u'A\u030a\u0327']
    reps = {'a', 'N', 'n:1', '"', '\\', '\n', ',', u'é', '\x01', '$', 'a b', u'\U0001f600', '', u'e\u0301'}
    for s in strs:
        add(E('str:%r' % s, ('str', s), rep=s in reps))
    # uris
    for s in ['http://x/y?z=1&w=2#f', 'a`b', 'a\\b', 'a b', u'é', '\n', ':/?#[]@&=;', 'a"b', '$', 'x', '\x01', 'a\\:b', 'a\\#b', 'a\\', u'\U0001f600']:
        add(E('uri:%r' % s, ('uri', s), rep=s in ('x', 'a`b', 'a\\b', ':/?#[]@&=;')))
    add(E('uri:empty', ('uri', ''), soft=True))
    # bins
    add(E('bin:text/plain', ('bin', 'text/plain'), rep=True))
    add(E('bin:a b', ('bin', 'a b')))
    # refs
    for name in ['a', 'a-b:c.d~e_f', '0', 'A1']:
        add(E('ref:' + name, ('ref', name, None), rep=(name == 'a')))
    for disp in ['x', 'a b', 'a"b', u'é', 'a\nb', ' x', 'x ', '', 'a\\b', '$x', 'a,b', '\x01', 'a\r\nb', 'a  b']:
        add(E('ref:a %r' % disp, ('ref', 'a', disp), rep=disp in ('x', 'a"b', 'a\nb', '')))
    # xstr
    add(E('xstr:hex()', ('xstr', 'hex', b''), minver='3.0'))
    add(E('xstr:hex(deadbeef)', ('xstr', 'hex', bytes.fromhex('deadbeef')), minver='3.0', rep=True))
    add(E('xstr:b64', ('xstr', 'b64', b'\x00\x01\x02'), minver='3.0'))
    add(E('xstr:b64-58bytes', ('xstr', 'b64', bytes(range(3, 61))), minver='3.0', rep=True))
    add(E('xstr:b64-200bytes', ('xstr', 'b64', bytes(i % 251 for i in range(200))), minver='3.0'))
    add(E('xstr:hex-100bytes', ('xstr', 'hex', bytes(i % 256 for i in range(100))), minver='3.0'))
    for pl in ['x', 'a"b', 'a:b', 'a\nb', 'a\\b', '', u'é', '$', 'a,b', ')', '\x01', 'a b']:
        add(E('xstr:Foo(%r)' % pl, ('xstr', 'Foo', pl), minver='3.0', rep=pl in ('x', 'a"b', 'a:b')))
    add(E('xstr:Bin(text/plain)', ('xstr', 'Bin', 'text/plain'), minver='3.0'))
    # type names that differ from the two binary encodings only by letter case are ordinary (textual) types
    add(E('xstr:Hex(ff00)', ('xstr', 'Hex', 'ff00'), minver='3.0', rep=True))
    add(E('xstr:B64(AAEC)', ('xstr', 'B64', 'AAEC'), minver='3.0'))
    add(E('xstr:HEX(zz)', ('xstr', 'HEX', 'zz'), minver='3.0'))
    # dates / times
    for (y, m, d) in [(1, 1, 1), (1970, 1, 1), (2020, 2, 29), (9999, 12, 31), (1900, 1, 1)]:
        add(E('date:%04d-%02d-%02d' % (y, m, d), ('date', y, m, d), rep=(y == 2020)))
    for (h, m, s, us) in [(0, 0, 0, 0), (23, 59, 59, 999999), (12, 34, 56, 100000), (0, 0, 0, 1), (1, 2, 0, 0), (12, 34, 56, 0), (12, 34, 56, 123000), (7, 51, 43, 249), (7, 51, 43, 15700), (7, 51, 43, 129649)]:
        add(E('time:%02d:%02d:%02d.%06d' % (h, m, s, us), ('time', h, m, s, us), rep=(us in (100000, 0) and h == 12)))
    # date-times
    dts = [
        ('UTC', (2020, 6, 1, 12, 0, 0)), ('UTC', (1970, 1, 1, 0, 0, 0)), ('UTC', (2038, 1, 19, 3, 14, 8)),
        ('London', (2020, 6, 1, 12, 0, 0)), ('London', (2020, 1, 1, 12, 0, 0)),
        ('London', (2020, 10, 25, 0, 30, 0)), ('London', (2020, 10, 25, 1, 30, 0)),   # 01:30 local, both folds
        ('London', (2020, 3, 29, 1, 0, 0)),                                          # first instant after the gap
        ('London', (2020, 3, 29, 0, 59, 59)),
        ('New_York', (2020, 11, 1, 5, 30, 0)), ('New_York', (2020, 11, 1, 6, 30, 0)), ('New_York', (2020, 3, 8, 7, 0, 0)),
        ('New_York', (1950, 6, 1, 12, 0, 0)),
        ('Kathmandu', (2020, 6, 1, 12, 0, 0)), ('Kathmandu', (1980, 6, 1, 12, 0, 0)),
        ('Lord_Howe', (2020, 4, 4, 15, 0, 0)), ('Lord_Howe', (2020, 4, 4, 15, 30, 0)), ('Lord_Howe', (2020, 10, 3, 15, 30, 0)),
        ('GMT+5', (2020, 6, 1, 12, 0, 0)), ('Paris', (2020, 6, 1, 12, 0, 0)), ('Sydney', (2020, 1, 1, 0, 0, 0)), ('Kolkata', (2020, 1, 1, 0, 0, 0)),
        # negative offsets that are not whole hours, sub-hour DST steps, local-mean-time era (offset with odd minutes)
        ('St_Johns', (2020, 6, 1, 12, 0, 0)), ('St_Johns', (2020, 1, 1, 12, 0, 0)), ('Marquesas', (2020, 6, 1, 12, 0, 0)),
        ('Caracas', (2010, 6, 1, 12, 0, 0)), ('Adelaide', (2020, 1, 1, 12, 0, 0)), ('New_York', (1880, 6, 1, 12, 0, 0)),
        ('Chatham', (2020, 1, 1, 12, 0, 0)), ('Los_Angeles', (2020, 7, 15, 12, 0, 0)),
    ]
    for i, (z, t) in enumerate(dts):
        for us in ((0, 1, 123456, 249, 129649) if i in (3, 5, 9) else (0,)):
            add(E('dt:%s %04d-%02d-%02dT%02d:%02d:%02d.%06dZ' % ((z,) + t + (us,)), _dt(z, *(t + (us,))),
                  rep=(i in (0, 3, 5) and us == 0) or (i == 3 and us == 123456)))
    for off in (0, 60, -300, 345, 570, -210):
        add(E('dt:fixed%+d' % off, _fx(off, 2020, 6, 1, 12, 0, 0), rep=(off == 60)))
    # one offset in both DST seasons (the zone found for the offset depends on the instant), and wall-clock times that fall
    # into the spring-forward gap of zones that have this offset in winter
    for off in (-480, -420, 570, 630):
        add(E('dt:fixed%+d jan' % off, _fx(off, 2020, 1, 15, 12 - off // 60, 0, 0), rep=(off == -480)))
        add(E('dt:fixed%+d jul' % off, _fx(off, 2020, 7, 15, 12 - off // 60, 0, 0), rep=(off == -480)))
    for off, (mo, d) in ((-600, (3, 8)), (-540, (3, 8)), (-480, (3, 8)), (570, (10, 4))):
        loc = (2020, mo, d, 2, 30, 0)
        import datetime as _d
        utc = _d.datetime(*loc) - _d.timedelta(minutes=off)
        add(E('dt:fixed%+d gap' % off, _fx(off, utc.year, utc.month, utc.day, utc.hour, utc.minute, 0)))
    add(E('dt:fixed+60 us', _fx(60, 2020, 1, 1, 12, 0, 0, 1)))
    # coordinates
    for (la, lo) in [(0.0, 0.0), (-90.0, 180.0), (37.545826, -77.449188), (1.1234564, 1.1234566), (1e-7, -1e-7), (89.9999999, 0.0), (-0.5, 0.25), (90.0, -180.0)]:
        add(E('coord:%r,%r' % (la, lo), ('coord', la, lo), rep=(la in (37.545826, 1e-7))))
    # collections (3.0)
    one, sa, mk, na = N.num(1.0), ('str', 'a'), N.MARKER, N.NA
    lists = [(), (N.NULL,), (one, sa), (('list', (one,)),), (('list', (('list', (mk,)),)),), (na, N.mkdict([('a', one)])),
             (('str', 'a,b'), ('str', ']'), ('str', '')), (('ref', 'a', 'x'), ('ref', 'b', None)), (N.num(1.5, 'kg'), ('uri', 'x')),
             (('bool', True), ('date', 2020, 2, 29), ('time', 12, 34, 56, 0)), (N.REMOVE, N.MARKER, N.NULL, N.NULL),
             # a collection inside a collection of the SAME shape whose members cannot be compared with each other (other unit, other
             # kind, NaN): nothing may compare an enclosing collection with an enclosed one
             (N.num(72.0, u'\xb0F'), ('list', (N.num(20.0, u'\xb0C'), N.num(25.0, u'\xb0C')))),
             (N.num(float('nan')), ('list', (N.num(float('nan')), ('str', 'x'))))]
    for i, l in enumerate(lists):
        add(E('list:%d' % i, ('list', tuple(l)), minver='3.0', rep=i in (0, 2, 5, 11)))
    dicts = [[], [('a', mk)], [('a', one), ('b', ('str', 'x'))], [('a', ('list', (one,)))], [('a', N.mkdict([('b', N.mkdict([('c', one)]))]))],
             [('a', N.NULL)], [('a', ('str', 'b:c d')), ('e', mk)], [('a', ('ref', 'r', 'x y')), ('z', one)], [('aB_1', na)],
             [('a', ('str', '}')), ('b', ('uri', 'u'))], [('a', ('bool', False)), ('b', N.REMOVE)],
             [('val', N.num(3.5, 'kW')), ('sub', N.mkdict([('val', N.num(12.0, 'A')), ('sub', mk)]))]]
    for i, d in enumerate(dicts):
        add(E('dict:%d' % i, N.mkdict(d), minver='3.0', rep=i in (0, 2, 3, 11)))
    g0 = N.mkgrid('3.0', [], [('a', [])], [])
    g1 = N.mkgrid('3.0', [], [('a', []), ('b', [])], [(one, ('str', 'x'))])
    g2 = N.mkgrid('3.0', [('m', mk), ('s', ('str', 'x y'))], [('a', [('u', ('str', 'kg'))])], [(one,), (N.NULL,)])
    g3 = N.mkgrid('3.0', [], [('a', [])], [(N.mkgrid('3.0', [], [('b', [])], [(N.mkgrid('3.0', [], [('c', [])], [(one,)]),)]),)])
    g4 = N.mkgrid('3.0', [], [('a', []), ('b', [])], [(('str', '>>'), ('str', 'a\nb')), (('list', (one,)), N.mkdict([('k', sa)]))])
    g5 = N.mkgrid('2.0', [], [('a', [])], [(one,)])
    # versions spelled with a third group: equal to 3.0 / 2.0 as versions, but a different spelling that survives as written
    g6 = N.mkgrid('3.0.0', [], [('a', [])], [(('list', (one,)),), (na,)])
    g7 = N.mkgrid('2.0.0', [('m', mk)], [('a', [])], [(one,)])
    # a nested grid of the OTHER version whose content is spelled differently per version (Remove), in meta, column meta and rows
    g8 = N.mkgrid('2.0', [('m', N.REMOVE)], [('a', [('c', N.REMOVE)]), ('b', [])], [(N.REMOVE, one), (N.NULL, N.REMOVE)])
    for i, g in enumerate([g0, g1, g2, g3, g4, g5, g6, g7, g8]):
        add(E('grid:%d' % i, g, minver='3.0', rep=i in (1, 2, 6, 8)))
    return V


V = _build()
BY_NAME = {e.name: e for e in V}
assert len(BY_NAME) == len(V), 'duplicate catalogue names'


def for_version(ver, reduced=False, soft=False):
    out = []
    for e in V:
        if e.soft and not soft:
            continue
        if ver == '2.0' and (e.minver == '3.0' or N.needs_v3(e.n)):
            continue
        if reduced and not e.rep:
            continue
        out.append(e)
    return out


def kind_reps():
    """One entry per kind (first rep of each neutral kind) — for pair/triple laws."""
    seen, out = set(), []
    for e in V:
        k = e.n[0]
        if e.rep and not e.soft:
            out.append(e)
    return out
