# -*- coding: utf-8 -*-
"""Value alphabets derived from arithmetic hazards: the inputs on which the obvious floating-point
formula for a conversion differs from the exact one.  Used to choose sub-second digits (C01-C06,
C03, C05, C17): a reader or writer that converts fractions through float arithmetic is right on
most values and wrong exactly here."""

_CACHE = {}


def microsecond_hazards():
    """Microsecond values us (0..999999) for which at least one of the usual float formulas for
    'fraction text -> microseconds' or 'microseconds -> fraction' is not exact (truncation after a
    product that lands just below the integer, or a quotient that does not print back)."""
    if 'us' not in _CACHE:
        out = []
        for us in range(1000000):
            f = '%06d' % us
            x = float('0.' + f)
            if int(x * 1e6) != us or int(float(f) / 1e6 * 1e6) != us or int(('%.6f' % (us / 1e6))[2:]) != us:
                out.append(us)
        _CACHE['us'] = out
    return _CACHE['us']


def microsecond_alphabet(n):
    """About n hazard values spread over the whole range, plus the first 40 and the boundary values."""
    h = microsecond_hazards()
    step = max(1, len(h) // max(1, n))
    return sorted(set(h[:40] + h[::step] + h[-5:] + [0, 1, 999, 1000, 999999, 500000, 100000]))
