# -*- coding: utf-8 -*-
"""Independent Haystack-JSON reader (strict on type prefixes and lexical forms — DESIGN Appendix B)
and writer with a spelling-choice callback.  Works on decoded JSON objects and neutral forms;
imports nothing from hszinc."""
import base64
import datetime
import re

from . import neutral as N
from . import refversion
from .refzinc import num_spellings, _frac_us, EPOCH, US

DEC = r'-?\d+(?:\.\d+)?(?:[eE][+-]?\d+)?'
NUM_RE = re.compile(r'n:(%s)(?: (.+))?\Z' % DEC, re.S)
REF_RE = re.compile(r'r:([a-zA-Z0-9_:\-.~]+)(?: (.*))?\Z', re.S)
DATE_RE = re.compile(r'd:(\d{4})-(\d{2})-(\d{2})\Z')
TIME_RE = re.compile(r'h:(\d{2}):(\d{2})(?::(\d{2})(?:\.(\d+))?)?\Z')
DT_RE = re.compile(r't:(\d{4})-(\d{2})-(\d{2})T(\d{2}):(\d{2}):(\d{2})(?:\.(\d+))?(Z|[+-]\d{2}:\d{2})(?: ([A-Z][a-zA-Z0-9_\-+]*))?\Z')
COORD_RE = re.compile(r'c:(-?\d+(?:\.\d+)?),(-?\d+(?:\.\d+)?)\Z')
XSTR_RE = re.compile(r'x:([A-Za-z][A-Za-z0-9_]*):(.*)\Z', re.S)


class RefJsonError(ValueError):
    pass


def read(obj):
    """decoded JSON (one grid object or an array of them) -> list of neutral grids"""
    if isinstance(obj, dict):
        return [read_grid(obj)]
    if isinstance(obj, list):
        return [read_grid(o) for o in obj]
    raise RefJsonError('top level must be an object or an array of objects')


def read_grid(o):
    if not isinstance(o, dict) or not isinstance(o.get('meta'), dict) or not isinstance(o.get('cols'), list):
        raise RefJsonError('grid object needs meta{} and cols[]')
    extra = set(o) - {'meta', 'cols', 'rows'}
    if extra:
        raise RefJsonError('unexpected grid keys %r' % sorted(extra))
    ver = o['meta'].get('ver')
    if not isinstance(ver, str):
        raise RefJsonError('meta.ver must be a string')
    try:
        v3 = refversion.cmp(ver, '3.0') >= 0
    except ValueError:
        raise RefJsonError('bad version %r' % ver)
    meta = [(k, read_value(v, v3)) for k, v in o['meta'].items() if k != 'ver']
    cols = []
    for c in o['cols']:
        if not isinstance(c, dict) or not isinstance(c.get('name'), str):
            raise RefJsonError('column needs a name')
        cols.append((c['name'], [(k, read_value(v, v3)) for k, v in c.items() if k != 'name']))
    names = [c[0] for c in cols]
    if len(set(names)) != len(names):
        raise RefJsonError('duplicate column')
    rows = []
    for r in (o.get('rows') or []):
        if not isinstance(r, dict):
            raise RefJsonError('row must be an object')
        unknown = set(r) - set(names)
        if unknown:
            raise RefJsonError('row has cells for unknown columns %r' % sorted(unknown))
        rows.append(tuple(read_value(r[c], v3) if c in r else N.NULL for c in names))
    return N.mkgrid(ver, meta, cols, rows)


def read_value(v, v3=True):
    if v is None:
        return N.NULL
    if v is True or v is False:
        return ('bool', v)
    if isinstance(v, (int, float)):
        return N.num(v)
    if isinstance(v, list):
        if not v3:
            raise RefJsonError('list under pre-3.0 version')
        return ('list', tuple(read_value(x, v3) for x in v))
    if isinstance(v, dict):
        if not v3:
            raise RefJsonError('dict/grid under pre-3.0 version')
        if 'meta' in v and 'cols' in v:
            return read_grid(v)
        return N.mkdict((k, read_value(x, v3)) for k, x in v.items())
    if not isinstance(v, str):
        raise RefJsonError('unsupported JSON value %r' % (v,))
    if v == 'm:':
        return N.MARKER
    if v == 'z:':
        if not v3:
            raise RefJsonError('NA under pre-3.0 version')
        return N.NA
    if v in ('x:', '-:'):
        return N.REMOVE
    if v[1:2] != ':':
        return ('str', v)
    p = v[0]
    if p == 's':
        return ('str', v[2:])
    if p == 'n':
        if v == 'n:INF':
            return N.num(float('inf'))
        if v == 'n:-INF':
            return N.num(float('-inf'))
        if v == 'n:NaN':
            return N.num(float('nan'))
        mo = NUM_RE.match(v)
        if not mo:
            raise RefJsonError('bad number %r' % v)
        return N.num(float(mo.group(1)), mo.group(2))
    if p == 'r':
        mo = REF_RE.match(v)
        if not mo:
            raise RefJsonError('bad ref %r' % v)
        return ('ref', mo.group(1), mo.group(2))
    if p == 'u':
        return ('uri', v[2:])
    if p == 'b':
        return ('bin', v[2:])
    if p == 'd':
        mo = DATE_RE.match(v)
        if not mo:
            raise RefJsonError('bad date %r' % v)
        y, m, d = map(int, mo.groups())
        try:
            datetime.date(y, m, d)
        except ValueError:
            raise RefJsonError('bad date %r' % v)
        return ('date', y, m, d)
    if p == 'h':
        mo = TIME_RE.match(v)
        if not mo:
            raise RefJsonError('bad time %r' % v)
        h, mi, s = int(mo.group(1)), int(mo.group(2)), int(mo.group(3) or 0)
        if h > 23 or mi > 59 or s > 59:
            raise RefJsonError('bad time %r' % v)
        return ('time', h, mi, s, _frac_us(mo.group(4)))
    if p == 't':
        mo = DT_RE.match(v)
        if not mo:
            raise RefJsonError('bad date-time %r' % v)
        y, mth, d, h, mi, s = [int(x) for x in mo.groups()[:6]]
        off = mo.group(8)
        if off == 'Z':
            offs = 0
        else:
            offs = (int(off[1:3]) * 3600 + int(off[4:6]) * 60) * (1 if off[0] == '+' else -1)
        try:
            local = datetime.datetime(y, mth, d, h, mi, s, _frac_us(mo.group(7)))
        except ValueError:
            raise RefJsonError('bad date-time %r' % v)
        utc_us = (local - EPOCH) // US - offs * 1000000
        from .refzinc import zone_offset_consistent
        if mo.group(9) is not None and not zone_offset_consistent(utc_us, offs, mo.group(9)):
            raise RefJsonError('offset %+d s is not the offset of zone %s at that instant: %r' % (offs, mo.group(9), v))
        return ('dt', utc_us, offs, mo.group(9))
    if p == 'c':
        mo = COORD_RE.match(v)
        if not mo:
            raise RefJsonError('bad coordinate %r' % v)
        return ('coord', float(mo.group(1)), float(mo.group(2)))
    if p == 'x':
        if not v3:
            raise RefJsonError('xstr under pre-3.0 version')
        mo = XSTR_RE.match(v)
        if not mo:
            raise RefJsonError('bad xstr %r' % v)
        typ, payload = mo.groups()
        try:
            if typ == 'hex':
                return ('xstr', 'hex', bytes.fromhex(payload))
            if typ == 'b64':
                return ('xstr', 'b64', base64.b64decode(payload, validate=True))
        except Exception:
            raise RefJsonError('bad xstr payload %r' % v)
        return ('xstr', typ, payload)
    raise RefJsonError('unknown type prefix in %r' % v)


# -------------------------------------------------------------------------------------------------
# writer

STRICT_DEC = re.compile(DEC + r'\Z')


def default_sp(label, alts):
    return alts[0]


class Writer(object):
    def __init__(self, sp=None):
        self.sp = sp or default_sp

    def value(self, n, p, ver='3.0'):
        sp, k = self.sp, n[0]
        if k == 'null':
            return None
        if k == 'marker':
            return 'm:'
        if k == 'na':
            return 'z:'
        if k == 'remove':
            canon, other = ('-:', 'x:') if refversion.cmp(ver, '3.0') >= 0 else ('x:', '-:')
            return sp(p + '.remove', [canon, other])
        if k == 'bool':
            return n[1]
        if k == 'num':
            v, unit = n[1], n[2]
            if v != v:
                t = 'n:NaN'
            elif v in (float('inf'), float('-inf')):
                t = 'n:INF' if v > 0 else 'n:-INF'
            else:
                alts = ['n:' + a for a in num_spellings(v) if STRICT_DEC.match(a)]
                if unit is None:
                    alts.append(('raw', int(v) if v == int(v) and abs(v) < 2 ** 53 and not (v == 0 and str(v).startswith('-')) else v))
                t = sp(p + '.num', alts)
                if isinstance(t, tuple):
                    return t[1]
            return t + (' ' + unit if unit else '')
        if k == 'str':
            s = n[1]
            alts = ['s:' + s]
            if s[1:2] != ':':
                alts.append(s)
            return sp(p + '.bare', alts) if len(alts) > 1 else alts[0]
        if k == 'uri':
            return 'u:' + n[1]
        if k == 'bin':
            return 'b:' + n[1]
        if k == 'ref':
            return 'r:' + n[1] + ('' if n[2] is None else ' ' + n[2])
        if k == 'xstr':
            d = n[2]
            if n[1] == 'hex':
                d = d.hex()
            elif n[1] == 'b64':
                d = base64.b64encode(d).decode('ascii')
            return 'x:%s:%s' % (n[1], d)
        if k == 'date':
            return 'd:%04d-%02d-%02d' % n[1:4]
        if k == 'time':
            h, mi, s, us = n[1:5]
            if us:
                full = '%06d' % us
                fr = sp(p + '.frac', [full.rstrip('0'), full] if full.rstrip('0') != full else [full])
                return 'h:%02d:%02d:%02d.%s' % (h, mi, s, fr)
            alts = ['h:%02d:%02d:%02d' % (h, mi, s), 'h:%02d:%02d:%02d.0' % (h, mi, s)]
            if s == 0:
                alts.append('h:%02d:%02d' % (h, mi))
            return sp(p + '.time', alts)
        if k == 'dt':
            _, utc_us, offs, zone = n
            local = EPOCH + (utc_us + offs * 1000000) * US
            s = 't:%04d-%02d-%02dT%02d:%02d:%02d' % (local.year, local.month, local.day, local.hour, local.minute, local.second)
            if local.microsecond:
                full = '%06d' % local.microsecond
                s += '.' + (sp(p + '.frac', [full.rstrip('0'), full]) if full.rstrip('0') != full else full)
            if offs == 0:
                s += sp(p + '.Z', ['Z', '+00:00'])
            else:
                a = abs(offs)
                s += '%s%02d:%02d' % ('+' if offs > 0 else '-', a // 3600, (a % 3600) // 60)
            if zone is not None:
                s += ' ' + zone
            return s
        if k == 'coord':
            return 'c:%s,%s' % (self.deg(n[1]), self.deg(n[2]))
        if k == 'list':
            return [self.value(x, '%s[%d]' % (p, i), ver) for i, x in enumerate(n[1])]
        if k == 'dict':
            return {kk: self.value(x, '%s.%s' % (p, kk), ver) for kk, x in n[1]}
        if k == 'grid':
            return self.grid(n, p + '.g')
        raise ValueError(n)

    def deg(self, v):
        r = repr(float(v))
        if 'e' in r:
            r = '%.10f' % v
        return r

    def grid(self, g, p):
        _, ver, meta, cols, rows = g
        sp = self.sp
        o = {'meta': {'ver': ver}, 'cols': []}
        for kk, v in meta:
            o['meta'][kk] = self.value(v, '%s.meta.%s' % (p, kk), ver)
        for c, cm in cols:
            col = {'name': c}
            for kk, v in cm:
                col[kk] = self.value(v, '%s.col(%s).%s' % (p, c, kk), ver)
            o['cols'].append(col)
        if not rows:
            # a NESTED grid is recognised by its three keys, so only the top level may leave "rows" out altogether
            form = sp(p + '.norows', ['[]', 'null', 'missing'] if p.startswith('doc.g') and p.count('.') == 1 else ['[]', 'null'])
            if form == '[]':
                o['rows'] = []
            elif form == 'null':
                o['rows'] = None
            return o
        out = []
        # the members of a row object come in any order (a JSON object is unordered): column order, or the reverse
        reverse = sp(p + '.rowmembers', ['column-order', 'reversed']) == 'reversed'
        for ri, r in enumerate(rows):
            row = {}
            pairs = list(zip(cols, r))
            if reverse:
                pairs.reverse()
            for (c, _), cell in pairs:
                q = '%s.r%d.%s' % (p, ri, c)
                if cell == N.NULL and sp(q + '.omit', [False, True]):
                    continue
                row[c] = self.value(cell, q, ver)
            out.append(row)
        o['rows'] = out
        return o


def write(grids, sp=None, array=None):
    w = Writer(sp)
    objs = [w.grid(g, 'doc.g%d' % i) for i, g in enumerate(grids)]
    if array is None:
        array = len(objs) != 1
    return objs if array else objs[0]


def write_scalar(n, sp=None, ver='3.0'):
    return Writer(sp).value(n, 'v', ver)
