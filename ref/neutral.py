"""Neutral value form (tagged tuples) and its comparison with the documented tolerances.

  ('null',) ('marker',) ('remove',) ('na',) ('bool', b)
  ('num', float, unit|None)            ints are numbers; unit ''/None = plain number
  ('str', s) ('uri', s) ('bin', s) ('ref', name, display|None) ('xstr', type, bytes|text)
  ('date', y, m, d) ('time', h, m, s, us)
  ('dt', utc_microseconds, offset_seconds, haystack_zone|None)
  ('coord', lat, lng)
  ('list', (v, ...)) ('dict', ((k, v), ...) sorted by key)
  ('grid', ver, ((k, v), ...), ((col, ((k, v), ...)), ...), ((cell, ...), ...))

Imports nothing from hszinc.
"""
import math

NULL, MARKER, REMOVE, NA = ('null',), ('marker',), ('remove',), ('na',)


def num(v, unit=None):
    return ('num', float(v), unit if unit else None)


def mkdict(items):
    return ('dict', tuple(sorted(items)))


def mkgrid(ver, meta=(), cols=(), rows=()):
    return ('grid', ver, tuple(meta), tuple((c, tuple(m)) for c, m in cols), tuple(tuple(r) for r in rows))


def fsame(a, b, tol):
    if math.isnan(a) or math.isnan(b):
        return math.isnan(a) and math.isnan(b)
    if a == b:
        # an exact comparison tells the two zeros apart (they are written "0.0" / "-0.0" and are different IEEE values)
        return tol > 0.0 or a != 0.0 or math.copysign(1.0, a) == math.copysign(1.0, b)
    if math.isinf(a) or math.isinf(b):
        return False
    return abs(a - b) <= tol


# comparison modes: tolerance on number payloads, tolerance on coordinates
MODES = {
    'exact': (0.0, 0.0),
    'zinc': (0.0, 0.5e-6 + 1e-12),   # numbers exact, coordinates to the format's six decimals
    'json': (1e-6, 1e-6),            # %f: six decimals on numbers, quantities and coordinates
}


def same(a, b, mode='exact', path='$'):
    """None if a and b denote the same value under `mode`, else a (path, a, b) triple naming the
    first difference.  `a` is the expected side: a dt whose zone is None accepts any zone."""
    ntol, ctol = MODES[mode]
    if a[0] != b[0]:
        return (path + ':kind', a, b)
    k = a[0]
    if k == 'num':
        if not fsame(a[1], b[1], ntol) or a[2] != b[2]:
            return (path, a, b)
        return None
    if k == 'coord':
        if not (fsame(a[1], b[1], ctol) and fsame(a[2], b[2], ctol)):
            return (path, a, b)
        return None
    if k == 'dt':
        if a[1] != b[1] or a[2] != b[2] or (a[3] is not None and a[3] != b[3]):
            return (path, a, b)
        return None
    if k == 'list':
        if len(a[1]) != len(b[1]):
            return (path + ':len', a, b)
        for i, (x, y) in enumerate(zip(a[1], b[1])):
            d = same(x, y, mode, '%s[%d]' % (path, i))
            if d:
                return d
        return None
    if k == 'dict':
        if [p[0] for p in a[1]] != [p[0] for p in b[1]]:
            return (path + ':keys', a, b)
        for (ka, x), (kb, y) in zip(a[1], b[1]):
            d = same(x, y, mode, '%s.%s' % (path, ka))
            if d:
                return d
        return None
    if k == 'grid':
        if a[1] != b[1] and not _same_version(a[1], b[1]):
            return (path + ':ver', a[1], b[1])
        d = _same_items(a[2], b[2], mode, path + ':meta')
        if d:
            return d
        if [c[0] for c in a[3]] != [c[0] for c in b[3]]:
            return (path + ':cols', [c[0] for c in a[3]], [c[0] for c in b[3]])
        for (ca, ma), (cb, mb) in zip(a[3], b[3]):
            d = _same_items(ma, mb, mode, '%s:col(%s)' % (path, ca))
            if d:
                return d
        if len(a[4]) != len(b[4]):
            return (path + ':nrows', len(a[4]), len(b[4]))
        for i, (ra, rb) in enumerate(zip(a[4], b[4])):
            if len(ra) != len(rb):
                return ('%s:row%d:ncells' % (path, i), len(ra), len(rb))
            for j, (x, y) in enumerate(zip(ra, rb)):
                d = same(x, y, mode, '%s:row%d:%s' % (path, i, a[3][j][0]))
                if d:
                    return d
        return None
    if a != b:
        return (path, a, b)
    return None


def _same_version(a, b):
    """The printed form of a version keeps its groups and suffix as written; only leading zeros inside a
    group are normalised ('02.0' prints as '2.0').  '2.0' and '2.0.0' compare equal as versions (C18) but
    are different spellings, and a grid's declared version survives as written (C07)."""
    import re
    def norm(v):
        m = re.match(r'^(\d[\d.]*)(.*)$', v)
        if not m:
            return None
        return tuple(int(p or 0) for p in m.group(1).split('.')), m.group(2)   # an empty group reads as 0 ('2.' is 2.0)
    try:
        na, nb = norm(a), norm(b)
    except (ValueError, TypeError):
        return False
    return na is not None and na == nb


def _same_items(xa, xb, mode, path):
    if [p[0] for p in xa] != [p[0] for p in xb]:
        return (path + ':names', [p[0] for p in xa], [p[0] for p in xb])
    for (ka, x), (kb, y) in zip(xa, xb):
        d = same(x, y, mode, '%s.%s' % (path, ka))
        if d:
            return d
    return None


def kind_of(n):
    return n[0]


def depth(n):
    k = n[0]
    if k == 'list':
        return 1 + max([depth(x) for x in n[1]] or [0])
    if k == 'dict':
        return 1 + max([depth(x) for _, x in n[1]] or [0])
    if k == 'grid':
        vals = [v for _, v in n[2]] + [v for _, m in n[3] for _, v in m] + [c for r in n[4] for c in r]
        return 1 + max([depth(x) for x in vals] or [0])
    return 0


def walk(n):
    """All values nested in n (including n)."""
    yield n
    k = n[0]
    if k == 'list':
        for x in n[1]:
            for y in walk(x):
                yield y
    elif k == 'dict':
        for _, x in n[1]:
            for y in walk(x):
                yield y
    elif k == 'grid':
        for _, v in n[2]:
            for y in walk(v):
                yield y
        for _, m in n[3]:
            for _, v in m:
                for y in walk(v):
                    yield y
        for r in n[4]:
            for c in r:
                for y in walk(c):
                    yield y


V3_KINDS = ('na', 'list', 'dict', 'grid', 'xstr')


def needs_v3(n):
    return any(x[0] in V3_KINDS for x in walk(n))


def show(n, limit=300):
    s = repr(n)
    return s if len(s) <= limit else s[:limit] + '...'
