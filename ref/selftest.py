"""Start-up self-tests of the reference side: an oracle bug must abort the check (exit 2), never
raise an alarm against hszinc."""
from mc.explore import Ch, HarnessError
from . import neutral as N, refzinc, catalogue


def _explore_spellings(render, d):
    """All renderings with <= d spelling deviations (sequential mini-explorer)."""
    stack = [({}, -1)]
    while stack:
        ov, last = stack.pop()
        ch = Ch(ov)
        text = render(ch.choose)
        ch.check_used()
        yield ov, text
        if len(ov) < d:
            for pos in range(last + 1, len(ch.points)):
                label, n = ch.points[pos]
                for alt in range(1, n):
                    nov = dict(ov)
                    nov[label] = alt
                    stack.append((nov, pos))


def zinc_selftest(d=1):
    count = 0
    for e in catalogue.V:
        if e.soft:
            continue
        ver = '3.0' if (e.minver == '3.0' or N.needs_v3(e.n)) else '2.0'
        if e.n[0] == 'bin':
            ver = '2.0'
        vers = [ver] if ver == '3.0' or e.n[0] == 'bin' else ['2.0', '3.0']
        for ver in vers:
            g = N.mkgrid(ver, [('m', e.n)], [('a', [('cm', e.n)]), ('b', [])], [(e.n, ('str', 'x')), (N.NULL, e.n)])
            for ov, text in _explore_spellings(lambda sp: refzinc.write([g, g], sp), d):
                count += 1
                try:
                    back = refzinc.read(text)
                except refzinc.RefZincError as ex:
                    raise HarnessError('refzinc self-test: own rendering of %s rejected (%s) spelling %r text %r' % (e.name, ex, ov, text))
                if len(back) != 2:
                    raise HarnessError('refzinc self-test: %s: %d grids read back, spelling %r text %r' % (e.name, len(back), ov, text))
                for b in back:
                    diff = N.same(g, b, 'exact')
                    if diff:
                        raise HarnessError('refzinc self-test: %s differs after own round trip: %r spelling %r text %r' % (e.name, diff, ov, text))
    return count


def json_selftest(d=1):
    import json
    from . import refjson
    count = 0
    for e in catalogue.V:
        if e.soft:
            continue
        ver = '3.0' if (e.minver == '3.0' or N.needs_v3(e.n)) else '2.0'
        for ver in ([ver] if ver == '3.0' else ['2.0', '3.0']):
            g = N.mkgrid(ver, [('m', e.n)], [('a', [('cm', e.n)]), ('b', [])], [(e.n, ('str', 'x')), (N.NULL, e.n)])
            g0 = N.mkgrid(ver, [], [('a', [])], [])
            for ov, obj in _explore_spellings(lambda sp: refjson.write([g, g0], sp), d):
                count += 1
                try:
                    back = refjson.read(json.loads(json.dumps(obj)))
                except refjson.RefJsonError as ex:
                    raise HarnessError('refjson self-test: own rendering of %s rejected (%s) spelling %r obj %r' % (e.name, ex, ov, obj))
                for want, b in zip([g, g0], back):
                    diff = N.same(want, b, 'exact')
                    if diff:
                        raise HarnessError('refjson self-test: %s differs after own round trip: %r spelling %r obj %r' % (e.name, diff, ov, obj))
    return count


def quick_selftest():
    """Run at the start of every check that uses the format references (d = 0: canonical spellings)."""
    return zinc_selftest(0) + json_selftest(0)
