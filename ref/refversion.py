"""Reference order on Haystack version strings (shares nothing with hszinc.version).

A version string is digits and dots followed by an arbitrary suffix that starts with a non-digit.
Key = (numeric groups without trailing zeros, no-suffix-first, suffix); Python tuple order on that key
is a total order, so agreement with it on all pairs implies every order axiom inside the alphabet.
"""


def split(s):
    i = 0
    while i < len(s) and (s[i].isdigit() and s[i] in '0123456789' or s[i] == '.'):
        i += 1
    nums, suffix = s[:i], s[i:]
    if not nums or not nums[0].isdigit():
        raise ValueError(s)
    groups = [int(p) if p else 0 for p in nums.split('.')]
    while groups and groups[-1] == 0:
        groups.pop()
    return tuple(groups), (suffix if suffix else None)


def key(s):
    nums, suffix = split(s)
    return (nums, 0 if suffix is None else 1, suffix or '')


def cmp(a, b):
    ka, kb = key(a), key(b)
    return -1 if ka < kb else (1 if ka > kb else 0)


OFFICIAL = ('2.0', '3.0')


def nearest_ok(v, answer):
    """What the property pins about nearest(): official; an equal one when one exists."""
    if answer not in OFFICIAL:
        return False
    for o in OFFICIAL:
        if cmp(o, v) == 0:
            return answer == o
    return True
