"""Driver C: deterministic scheduler for REAL threads running the REAL code.

Every *line event* inside the traced functions (chosen by file / function name) is a scheduling
point at which the running thread hands a baton back to the scheduler, so exactly one thread runs
at any time and the interpreter's own switching is never exercised.  "Which thread runs next" is
the only choice; the default is to let the running thread continue, so a deviation is a preemption
and the exploration bound is a preemption bound (a switch when a thread ends is free) — iterative
context bounding as in CHESS.

Real threading.Lock/RLock objects found in the traced module's globals are replaced by
scheduler-aware locks (acquire = scheduling point; a thread blocked on a held lock is not enabled;
nobody enabled while somebody is unfinished = deadlock).
"""
import gc
import sys
import threading
import time

from .explore import HarnessError, Stats


class Deadlock(Exception):
    pass


class SchedLock(object):
    """Cooperative replacement for threading.Lock / RLock under the scheduler."""

    def __init__(self, sched, reentrant=False):
        self.sched, self.reentrant = sched, reentrant
        self.owner, self.depth = None, 0

    def acquire(self, blocking=True, timeout=-1):
        me = self.sched.current
        while True:
            if self.owner is None or (self.reentrant and self.owner == me):
                self.owner = me
                self.depth += 1
                return True
            if not blocking:
                return False
            self.sched.block_on(self)

    def release(self):
        self.depth -= 1
        if self.depth <= 0:
            self.owner, self.depth = None, 0

    __enter__ = acquire

    def __exit__(self, *a):
        self.release()

    def locked(self):
        return self.owner is not None


class Scheduler(object):
    def __init__(self, bodies, traced, choices, max_steps=5000):
        """bodies: list of callables (one per thread); traced(code) -> bool says whether line events of a
        code object are scheduling points; choices: list of ints (positional schedule prefix)."""
        self.bodies = bodies
        self.traced = traced
        self.prefix = list(choices)
        self.max_steps = max_steps
        self.n = len(bodies)
        self.go = [threading.Semaphore(0) for _ in bodies]
        self.back = threading.Semaphore(0)
        self.done = [False] * self.n
        self.blocked = [None] * self.n
        self.errors = [None] * self.n
        self.current = None
        self.points = []       # (enabled tuple, chosen index into enabled, running-before, running still enabled)
        self.choices = []
        self.hang = False

    # ---- inside worker threads ---------------------------------------------------------------
    def _yield(self):
        me = self.current
        self.back.release()
        self.go[me].acquire()

    def block_on(self, lock):
        me = self.current
        self.blocked[me] = lock
        self.back.release()
        self.go[me].acquire()
        self.blocked[me] = None

    def _global_trace(self, frame, event, arg):
        if event == 'call' and self.traced(frame.f_code):
            return self._local_trace
        return None

    def _local_trace(self, frame, event, arg):
        if event == 'line':
            self._yield()
        return self._local_trace

    def _run(self, i):
        self.go[i].acquire()
        sys.settrace(self._global_trace)
        try:
            self.bodies[i]()
        except BaseException as e:  # noqa
            self.errors[i] = e
        finally:
            sys.settrace(None)
            self.done[i] = True
            self.back.release()

    # ---- scheduler (main thread) ---------------------------------------------------------------
    def enabled(self):
        out = []
        for i in range(self.n):
            if self.done[i]:
                continue
            lk = self.blocked[i]
            if lk is not None and lk.owner is not None and lk.owner != i:
                continue
            out.append(i)
        return out

    def run(self):
        threads = [threading.Thread(target=self._run, args=(i,), daemon=True) for i in range(self.n)]
        for t in threads:
            t.start()
        running = None
        step = 0
        while not all(self.done):
            en = self.enabled()
            if not en:
                raise Deadlock('no enabled thread; unfinished: %r' % [i for i in range(self.n) if not self.done[i]])
            still = running is not None and running in en
            # canonical order: the running thread first if still enabled, then ascending ids
            order = ([running] if still else []) + [i for i in en if not (still and i == running)]
            if step < len(self.prefix):
                c = self.prefix[step]
                if not 0 <= c < len(order):
                    raise HarnessError('schedule replay diverged at step %d: choice %d of %d enabled' % (step, c, len(order)))
            else:
                c = 0
            self.points.append((tuple(order), still))
            self.choices.append(c)
            nxt = order[c]
            self.current = nxt
            running = nxt
            self.go[nxt].release()
            if not self.back.acquire(timeout=60):
                self.hang = True
                raise Deadlock('thread %d did not reach a scheduling point within 60 s' % nxt)
            step += 1
            if step > self.max_steps:
                raise HarnessError('schedule longer than %d steps' % self.max_steps)
        for t in threads:
            t.join(5)
        return self

    def preemptions_before(self, i):
        """Number of preemptions among the first i choices."""
        p = 0
        for j in range(i):
            order, still = self.points[j]
            if still and self.choices[j] != 0:
                p += 1
        return p


def children(s, prefix_len, bound):
    """Schedules one deviation longer than the executed schedule `s` (each generated exactly once)."""
    for i in range(prefix_len, len(s.points)):
        order, still = s.points[i]
        base = s.preemptions_before(i)
        for alt in range(1, len(order)):
            cost = base + (1 if still else 0)
            if cost > bound:
                continue
            yield s.choices[:i] + [alt]


def explore_schedules(make_run, bound, st, prefixes, budget=None):
    """make_run(prefix) -> (Scheduler after run, observation).  Depth-first over schedule prefixes,
    starting from the given list of prefixes (each a subtree root).  With a budget, stops after that
    many executions and returns the unexplored prefixes (subtree roots) so the caller can re-shard
    them; nothing is dropped."""
    stack = [list(p) for p in prefixes]
    nexec = 0
    while stack:
        if budget is not None and nexec >= budget:
            break
        prefix = stack.pop()
        s, obs = make_run(prefix)
        nexec += 1
        st.count('executions')
        st.count('states', len(s.points) - len(prefix) + (1 if not prefix else 0))
        st.count('transitions', len(s.points) - len(prefix))
        st.count('sched_points', len(s.points))
        for ch in children(s, len(prefix), bound):
            stack.append(ch)
    return stack
