"""Choice-tree exploration with deviation bounding, product spaces, and fork-based sharding.

A *harness* is a deterministic function ``run(ch) -> result`` that asks ``ch.choose(label, alts)``
wherever the case could differ (alternative 0 = the default / canonical answer).  ``explore``
enumerates every override set {label -> alternative index} with at most ``d`` deviations, each
exactly once, depth first, exactly as a CHESS-style iterative context bounding search does for
preemptions.  Nothing here samples: VERIF_SEED only permutes visiting order.
"""
import hashlib
import itertools
import multiprocessing
from . import modstate
import os
import random
import sys
import time
import traceback


class HarnessError(Exception):
    """The harness itself (not hszinc) misbehaved: nondeterminism, bad replay, oracle self-test."""


class _Null(object):
    def write(self, s):
        return len(s)

    def flush(self):
        pass

    def isatty(self):
        return False


REAL_STDOUT = sys.__stdout__


def silence_stdout():
    """hszinc prints debug text; keep the check's stdout for VIOLATION lines only."""
    sys.stdout = _Null()


def out(line):
    REAL_STDOUT.write(line + '\n')
    REAL_STDOUT.flush()


def h64(obj):
    """Stable 64-bit hash of a repr-able object (PYTHONHASHSEED independent)."""
    if not isinstance(obj, (bytes, bytearray)):
        obj = repr(obj).encode('utf-8', 'surrogatepass')
    return int.from_bytes(hashlib.blake2b(obj, digest_size=8).digest(), 'big')


class Ch(object):
    """Records the choice points a run meets and answers them from an override map."""

    def __init__(self, overrides=None):
        self.ov = dict(overrides or {})
        self.points = []  # (label, arity)
        self.used = set()
        self.labels = set()

    def choose(self, label, alts):
        if label in self.labels:
            raise HarnessError('choice label %r met twice in one run' % (label,))
        self.labels.add(label)
        n = len(alts)
        self.points.append((label, n))
        idx = 0
        if label in self.ov:
            idx = self.ov[label]
            self.used.add(label)
            if not 0 <= idx < n:
                raise HarnessError('override %r=%r out of range (arity %d)' % (label, idx, n))
        return alts[idx]

    def check_used(self):
        missing = set(self.ov) - self.used
        if missing:
            raise HarnessError('override(s) %r never met during the run' % (sorted(missing),))


def sigkey(symptom, sig):
    return (symptom, tuple(sorted((k, str(v)) for k, v in sig.items())))


class Stats(object):
    """Mergeable accounting for one exploration (all numbers are measured)."""

    MAX_FAIL = 400
    MAX_SAMPLES = 6

    def __init__(self):
        self.c = {}            # named counters
        self.inputs = set()    # 64-bit hashes of distinct generated cases
        self.nontrivial = set()
        self.outcomes = set()  # hashes of distinct observation vectors
        self.samples = []
        self.failures = []     # dicts: symptom, sig, case, detail
        self.nfail = 0
        self.skips = {}
        self.known = {}
        self._keys = set()

    def count(self, name, n=1):
        self.c[name] = self.c.get(name, 0) + n

    def case(self, rendering, nontrivial=True, outcome=None, sample=None):
        h = h64(rendering)
        self.inputs.add(h)
        if nontrivial:
            self.nontrivial.add(h)
        if outcome is not None:
            self.outcomes.add(h64(outcome))
        if sample is not None and len(self.samples) < self.MAX_SAMPLES:
            self.samples.append(sample)

    def skip(self, reason):
        self.skips[reason] = self.skips.get(reason, 0) + 1

    def fail(self, symptom, sig, case, detail=None):
        """Record a failing case.  Everything is counted; at most MAX_FAIL are kept verbatim, plus
        one representative of every signature first met beyond the cap."""
        self.nfail += 1
        key = sigkey(symptom, sig)
        if len(self.failures) < self.MAX_FAIL or key not in self._keys:
            self.failures.append({'symptom': symptom, 'sig': sig, 'case': case, 'detail': detail or {}})
        self._keys.add(key)

    def merge(self, o):
        for k, v in o.c.items():
            self.c[k] = self.c.get(k, 0) + v
        self.inputs |= o.inputs
        self.nontrivial |= o.nontrivial
        self.outcomes |= o.outcomes
        for s in o.samples:
            if len(self.samples) < self.MAX_SAMPLES:
                self.samples.append(s)
        self.failures.extend(o.failures)
        self._keys |= o._keys
        self.nfail += o.nfail
        for k, v in o.skips.items():
            self.skips[k] = self.skips.get(k, 0) + v
        return self


def _children(points, ov, last_pos, d, rng):
    """Override sets one deviation larger, each generated exactly once."""
    if len(ov) >= d:
        return
    for pos in range(last_pos + 1, len(points)):
        label, n = points[pos]
        if label in ov:
            continue
        alts = list(range(1, n))
        if rng is not None:
            rng.shuffle(alts)
        for alt in alts:
            nov = dict(ov)
            nov[label] = alt
            yield nov, pos


def replay_constant(case, st):
    """Re-run one execution that changed a library constant (see mc/modstate.py)."""
    import importlib
    mod = importlib.import_module(case['module'])
    run = getattr(mod, case['run'])
    modstate.baseline()
    ch = Ch({k: v for k, v in case['ov'].items()})
    tmp = Stats()
    run(ch, tmp, *[tuple(a) if isinstance(a, list) else a for a in case['args']])
    modstate.report_constants(st, case)


def explore_subtree(run, stats, ov, last_pos, d, rng=None, args=()):
    """Depth-first enumeration below one node; ``run(ch, stats, *args)`` executes one leaf."""
    stack = [(ov, last_pos)]
    while stack:
        ov, last_pos = stack.pop()
        ch = Ch(ov)
        run(ch, stats, *args)
        ch.check_used()
        if modstate.report_constants(stats, {'kind': 'library-constant', 'module': run.__module__, 'run': run.__name__,
                                             'ov': dict(ov), 'args': list(args)}):
            stats.count('executions_that_changed_a_library_constant')
        stats.count('executions')
        stats.count('states')                  # one node of the choice tree per override set
        stats.count('choice_points', len(ch.points))
        stats.count('dev%d' % len(ov))
        for child in _children(ch.points, ov, last_pos, d, rng):
            stats.count('transitions')
            stack.append(child)
    return stats


# ------------------------------------------------------------------------------------------------
# fork-based sharding

_TASK_FN = None


def _init_worker():
    silence_stdout()
    import gc
    gc.freeze()


def _call(args):
    try:
        return ('ok', _TASK_FN(*args))
    except HarnessError as e:
        return ('harness', '%s\n%s' % (e, traceback.format_exc()))
    except BaseException as e:  # noqa
        return ('harness', 'worker crashed: %r\n%s' % (e, traceback.format_exc()))


def pmap(fn, tasks, jobs=None, chunksize=1):
    """Run fn(*task) for every task on a fork pool (the pool is created once per call, never per
    execution); yields results as they complete.  A HarnessError in a worker aborts the check."""
    global _TASK_FN
    tasks = list(tasks)
    jobs = jobs or default_jobs()
    _TASK_FN = fn
    if jobs <= 1 or len(tasks) <= 1:
        for t in tasks:
            kind, val = _call(t)
            if kind != 'ok':
                raise HarnessError(val)
            yield val
        return
    ctx = multiprocessing.get_context('fork')
    pool = ctx.Pool(min(jobs, len(tasks)), initializer=_init_worker)
    try:
        for kind, val in pool.imap_unordered(_call, tasks, chunksize):
            if kind != 'ok':
                raise HarnessError(val)
            yield val
    finally:
        pool.terminate()
        pool.join()


def default_jobs():
    try:
        return int(os.environ.get('VERIF_JOBS', '') or 0) or min(16, os.cpu_count() or 1)
    except ValueError:
        return 16


def seeded_rng(seed, salt=''):
    return random.Random('%s/%s' % (seed, salt))


def _explore_task(run_name, module_name, ov, pos, d, seed, args):
    mod = sys.modules.get(module_name) or __import__(module_name, fromlist=['x'])
    run = getattr(mod, run_name)
    st = Stats()
    explore_subtree(run, st, ov, pos, d, seeded_rng(seed, repr(sorted(ov.items()))), args)
    return st


def explore(module_name, run_name, d, seed=0, jobs=None, stats=None, args=()):
    """Explore all override sets with <= d deviations of harness ``module.run_name(ch, stats)``.
    The root is run here; each first deviation is a shard for the pool."""
    mod = sys.modules.get(module_name) or __import__(module_name, fromlist=['x'])
    run = getattr(mod, run_name)
    stats = stats if stats is not None else Stats()
    ch = Ch({})
    run(ch, stats, *args)
    stats.count('executions')
    stats.count('states')
    stats.count('choice_points', len(ch.points))
    stats.count('dev0')
    rng = seeded_rng(seed, 'root')
    tasks = []
    for nov, pos in _children(ch.points, {}, -1, d, rng):
        stats.count('transitions')
        tasks.append((run_name, module_name, nov, pos, d, seed, args))
    rng.shuffle(tasks)
    for st in pmap(_explore_task, tasks, jobs, chunksize=max(1, len(tasks) // (16 * (jobs or default_jobs())))):
        stats.merge(st)
    return stats


# ------------------------------------------------------------------------------------------------
# complete product spaces

class Product(object):
    """Iterates a Cartesian product while counting the nodes/edges of its choice tree."""

    def __init__(self, *dims):
        self.dims = [list(d) for d in dims]

    def __iter__(self):
        return itertools.product(*self.dims)

    def tree_size(self):
        """(states, transitions) of the full choice tree: one node per prefix."""
        states, width = 1, 1
        for d in self.dims:
            width *= len(d)
            states += width
        return states, states - 1

    def leaves(self):
        n = 1
        for d in self.dims:
            n *= len(d)
        return n


def chunks(seq, n):
    seq = list(seq)
    k = max(1, (len(seq) + n - 1) // n)
    return [seq[i:i + k] for i in range(0, len(seq), k)]


class Timer(object):
    def __init__(self):
        self.t0 = time.time()

    def s(self):
        return time.time() - self.t0
