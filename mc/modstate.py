# -*- coding: utf-8 -*-
"""Module-level state of the library under test, made visible to the explorers.

hszinc keeps process-wide state in module variables: the shared Version constants (an undeclared
grid's version IS the constant object), singletons, grammar and filter caches, name counters and
whatever memo a change may add.  An explorer that replays histories on fresh objects does not own
that state unless it looks at it, so:

  constants_changed()   instances of hszinc classes bound to module-level names must keep the
                        attribute values they had right after import (checked after every
                        execution by both drivers: no library call may alter a shared constant);
  Snapshot              shallow copies of every module-level container / plain value / instance
                        state and of class-level containers, with restore(): a history that
                        includes 'earlier activity' events starts from the state the library has
                        right after import, so that every execution, and every replay, is
                        reproducible on its own.
"""
import sys
import types

_PLAIN = (bool, int, float, str, bytes, tuple, frozenset, type(None))
_CONTAINERS = (dict, list, set)
_BASE = {}


def _modules():
    return [(n, m) for n, m in sorted(sys.modules.items())
            if (n == 'hszinc' or n.startswith('hszinc.')) and isinstance(m, types.ModuleType) and '_verif_' not in n]


def _own_class(obj):
    mod = getattr(type(obj), '__module__', '') or ''
    return (mod == 'hszinc' or mod.startswith('hszinc.')) and not isinstance(obj, type)


def _instances():
    """(qualified name, object) of module-level instances of hszinc's own classes, each object once."""
    seen, out = set(), []
    for n, m in _modules():
        for k, v in sorted(vars(m).items()):
            if k.startswith('__') or not _own_class(v) or id(v) in seen:
                continue
            if not hasattr(v, '__dict__') or not all(isinstance(a, _PLAIN) for a in vars(v).values()):
                continue                        # value-like objects only (grammar holders carry caches: see Snapshot)
            seen.add(id(v))
            out.append(('%s.%s' % (n, k), v))
    return out


def _state(obj):
    try:
        return repr(sorted((k, repr(v)) for k, v in vars(obj).items()))
    except Exception as e:  # noqa
        return 'unreadable:%s' % type(e).__name__


def baseline():
    """Record the constants right after import (call before any library activity)."""
    import hszinc  # noqa
    if 'consts' not in _BASE:
        insts = _instances()
        # only small value-like objects are constants; grammar objects, caches etc. are not instances of hszinc classes
        _BASE['consts'] = [(name, obj, _state(obj), dict(vars(obj))) for name, obj in insts]
    return _BASE['consts']


def constants_changed():
    """-> list of (name, before, after) for constants whose attributes differ from the import-time state;
    the constants are put back so that later executions are judged on their own."""
    out = []
    for name, obj, state, attrs in baseline():
        now = _state(obj)
        if now != state:
            out.append((name, state, now))
            vars(obj).clear()
            vars(obj).update(attrs)
    return out


def report_constants(st, case, where=''):
    """Record a failure per changed constant.  -> True if something had changed."""
    ch = constants_changed()
    for name, before, after in ch:
        st.fail('library-constant-changed', {'constant': name, 'became': after[:120]}, case,
                {'constant': name, 'import_time_state': before[:300], 'state_after_the_execution': after[:300], 'where': where})
    return bool(ch)


class Snapshot(object):
    """Import-time module state (taken lazily at the first use, which must precede library activity that matters:
    callers take it right after import)."""

    def __init__(self):
        import hszinc  # noqa
        self.containers = []     # (container object, shallow copy)
        self.plain = []          # (module, name, value)
        self.instances = []      # (object, attrs copy)
        self.caches = []         # objects with cache_clear
        seen = set()
        for n, m in _modules():
            for k, v in list(vars(m).items()):
                if k.startswith('__'):
                    continue
                self._take(m, k, v, seen)
                if isinstance(v, type) and (v.__module__ or '').startswith('hszinc'):
                    for ck, cv in list(vars(v).items()):
                        if not ck.startswith('__') and isinstance(cv, _CONTAINERS) and id(cv) not in seen:
                            seen.add(id(cv))
                            self.containers.append((cv, self._copy(cv)))

    @staticmethod
    def _copy(c):
        return dict(c) if isinstance(c, dict) else (list(c) if isinstance(c, list) else set(c))

    def _take(self, m, k, v, seen):
        if isinstance(v, _PLAIN):
            self.plain.append((m, k, v))
        elif id(v) in seen:
            return
        elif isinstance(v, _CONTAINERS):
            seen.add(id(v))
            self.containers.append((v, self._copy(v)))
        elif _own_class(v) and hasattr(v, '__dict__'):
            seen.add(id(v))
            self.instances.append((v, dict(vars(v))))
            for a in vars(v).values():          # e.g. the per-version grammar tables of the ZINC reader
                if isinstance(a, _CONTAINERS) and id(a) not in seen:
                    seen.add(id(a))
                    self.containers.append((a, self._copy(a)))
        elif callable(getattr(v, 'cache_clear', None)):
            seen.add(id(v))
            self.caches.append(v)

    def restore(self):
        for m, k, v in self.plain:
            cur = vars(m).get(k, self)
            if cur is not v and (type(cur) is not type(v) or cur != v):
                setattr(m, k, v)
        for c, copy in self.containers:
            if isinstance(c, dict):
                if len(c) != len(copy) or any(kk not in c or c[kk] is not vv for kk, vv in copy.items()):
                    c.clear()
                    c.update(copy)
            elif isinstance(c, list):
                if len(c) != len(copy) or any(a is not b for a, b in zip(c, copy)):
                    c[:] = copy
            else:
                if c != copy:
                    c.clear()
                    c.update(copy)
        for obj, attrs in self.instances:
            if vars(obj) != attrs:
                vars(obj).clear()
                vars(obj).update(attrs)
        for f in self.caches:
            try:
                f.cache_clear()
            except Exception:  # noqa
                pass


_SNAP = {}


def snapshot():
    if 'snap' not in _SNAP:
        _SNAP['snap'] = Snapshot()
    return _SNAP['snap']


def restore():
    snapshot().restore()
