"""Tiers, evidence, replay files, known-findings matching.  See DESIGN.md §4."""
import argparse
import hashlib
import importlib
import json
import os
import sys
import time
import traceback
import warnings

from .explore import HarnessError, Stats, out, silence_stdout, sigkey, default_jobs

HERE = os.path.dirname(os.path.dirname(os.path.abspath(__file__)))
KNOWN_PATH = os.path.join(HERE, 'known_findings.json')
MAX_VIOLATION_LINES = 25


class Ctx(object):
    def __init__(self, prop, tier, seed, jobs):
        self.prop, self.tier, self.seed, self.jobs = prop, tier, seed, jobs
        self.quick = tier == 'quick'
        self.t0 = time.time()

    def elapsed(self):
        return time.time() - self.t0


def jsonable(x):
    try:
        json.dumps(x)
        return x
    except (TypeError, ValueError):
        if isinstance(x, dict):
            return {str(k): jsonable(v) for k, v in x.items()}
        if isinstance(x, (list, tuple, set, frozenset)):
            return [jsonable(v) for v in x]
        return repr(x)


def load_known(prop):
    if not os.path.exists(KNOWN_PATH):
        return []
    with open(KNOWN_PATH) as f:
        data = json.load(f)
    return [e for e in data.get('findings', []) if e.get('property') == prop]


def _val_match(pat, val):
    if isinstance(pat, dict):
        if 'range' in pat:
            lo, hi = pat['range']
            try:
                return lo <= val <= hi
            except TypeError:
                return False
        if 'prefix' in pat:
            return isinstance(val, str) and val.startswith(pat['prefix'])
        if 'contains' in pat:
            return isinstance(val, str) and pat['contains'] in val
        return False
    if isinstance(pat, list):
        return val in pat
    return pat == val


def entry_matches(entry, failure):
    m = entry.get('match', {})
    sym = m.get('symptom')
    if sym is not None and not _val_match(sym, failure['symptom']):
        return False
    for k, pat in m.get('sig', {}).items():
        if k not in failure['sig'] or not _val_match(pat, failure['sig'][k]):
            return False
    return True


def classify(prop, failures):
    """-> (known: {entry id: [entry, n]}, violations: [(key, representative, n, fixed_entry|None)])"""
    entries = load_known(prop)
    known, groups = {}, {}
    for f in failures:
        hit = None
        for e in entries:
            if e.get('status') == 'known' and entry_matches(e, f):
                hit = e
                break
        if hit is not None:
            known.setdefault(hit['id'], [hit, 0])[1] += 1
            continue
        key = sigkey(f['symptom'], f['sig'])
        g = groups.get(key)
        if g is None:
            groups[key] = [f, 1]
        else:
            g[1] += 1
            if len(json.dumps(jsonable(f['case']))) < len(json.dumps(jsonable(g[0]['case']))):
                g[0] = f
    violations = []
    for key, (f, n) in sorted(groups.items(), key=lambda kv: repr(kv[0])):
        fixed = None
        for e in entries:
            if e.get('status') == 'fixed' and entry_matches(e, f):
                fixed = e
                break
        violations.append((key, f, n, fixed))
    return known, violations


def write_replay(prop, f):
    d = os.path.join(HERE, 'replays', prop)
    os.makedirs(d, exist_ok=True)
    body = {'property': prop, 'symptom': f['symptom'], 'sig': jsonable(f['sig']),
            'case': jsonable(f['case']), 'detail': jsonable(f['detail'])}
    blob = json.dumps(body, sort_keys=True, indent=1, ensure_ascii=True)
    name = hashlib.sha1(blob.encode()).hexdigest()[:16] + '.json'
    path = os.path.join(d, name)
    with open(path, 'w') as fh:
        fh.write(blob + '\n')
    return path


def write_evidence(prop, tier, seed, level, coverage, assumptions, wall, nviol):
    # runs against a scratch copy of the repository (VERIF_REPO, used while developing) never touch the committed evidence
    d = os.path.join(HERE, 'evidence') if os.environ.get('VERIF_REPO', '/repo') == '/repo' else os.environ.get('VERIF_EVIDENCE_DIR', '/tmp/verif-scratch-evidence')
    os.makedirs(d, exist_ok=True)
    os.makedirs(d, exist_ok=True)
    ev = {'property_id': prop, 'tier': tier, 'seed': seed, 'level': level,
          'coverage': jsonable(coverage), 'assumptions': assumptions,
          'wall_s': round(wall, 3), 'violations': nviol}
    tmp = os.path.join(d, '.%s.json.tmp' % prop)
    with open(tmp, 'w') as fh:
        json.dump(ev, fh, indent=1, sort_keys=True, ensure_ascii=True)
        fh.write('\n')
    os.replace(tmp, os.path.join(d, '%s.json' % prop))


COMMON_ASSUMPTIONS = [
    'hszinc imported from the working tree of /repo under /venv/bin/python 3.12, default BasicQuantity (Pint mode, hszinc.use_pint, is explored only where a check says so under coverage.bounds: C20 and C12)',
    'statement holds only inside the bounds listed under coverage.bounds; nothing outside the alphabets is claimed',
    'reference models under /verif/ref share no code with hszinc and are self-tested at start-up',
]


def main(argv):
    ap = argparse.ArgumentParser(prog='check')
    ap.add_argument('prop')
    ap.add_argument('--tier', default=os.environ.get('VERIF_TIER') or 'quick', choices=['quick', 'thorough'])
    ap.add_argument('--replay')
    ap.add_argument('--jobs', type=int, default=0)
    a = ap.parse_args(argv)
    prop = a.prop.upper()
    try:
        seed = int(os.environ.get('VERIF_SEED', '0') or 0)
    except ValueError:
        seed = 0
    jobs = a.jobs or default_jobs()
    warnings.simplefilter('ignore')
    silence_stdout()
    try:
        mod = importlib.import_module('props.%s' % prop.lower())
    except ImportError:
        sys.stderr.write(traceback.format_exc())
        return 2
    ctx = Ctx(prop, a.tier, seed, jobs)
    from . import modstate
    modstate.baseline()                 # the library's shared constants as they are right after import
    modstate.snapshot()                 # ... and the import-time content of every module-level variable

    if a.replay:
        return do_replay(mod, prop, a.replay)

    t0 = time.time()
    try:
        res = mod.run(ctx)
    except HarnessError as e:
        sys.stderr.write('HARNESS ERROR in %s: %s\n' % (prop, e))
        return 2
    except Exception:
        sys.stderr.write('HARNESS ERROR in %s (unexpected exception):\n%s' % (prop, traceback.format_exc()))
        return 2
    st = res['stats']
    wall = time.time() - t0

    known, violations = classify(prop, st.failures)
    for eid, (e, n) in sorted(known.items()):
        out('KNOWN-FINDING: property=%s %s: %s (%d cases)' % (prop, eid, e.get('what', ''), n))
    nviol = 0
    for key, f, n, fixed in violations:
        nviol += 1
        if nviol > MAX_VIOLATION_LINES:
            continue
        path = write_replay(prop, f)
        extra = ''
        if fixed is not None:
            extra = ' regression-of=%s' % fixed['id']
        out('VIOLATION property=%s replay=%s symptom=%s cases=%d%s sig=%s' % (
            prop, path, f['symptom'], n, extra, json.dumps(jsonable(f['sig']), sort_keys=True)))
    if nviol > MAX_VIOLATION_LINES:
        out('... %d more violation signatures not listed' % (nviol - MAX_VIOLATION_LINES))

    cov = dict(res.get('coverage', {}))
    cov.setdefault('states', st.c.get('states', 0))
    cov.setdefault('transitions', st.c.get('transitions', 0))
    cov.setdefault('traces_validated_against_impl', st.c.get('executions', 0))
    cov.setdefault('evaluations', st.c.get('executions', 0))
    cov.setdefault('distinct_inputs', len(st.inputs))
    cov.setdefault('distinct_nontrivial', len(st.nontrivial))
    cov.setdefault('distinct_outcomes', len(st.outcomes))
    cov.setdefault('samples', st.samples[:6])
    cov.setdefault('counters', dict(sorted(st.c.items())))
    cov.setdefault('skipped_out_of_domain', st.skips)
    cov.setdefault('failing_cases_total', st.nfail)
    cov['known_findings_seen'] = {eid: n for eid, (e, n) in known.items()}
    cov['violation_signatures'] = nviol
    cov.setdefault('exhaustive', bool(res.get('exhaustive', False)))
    cov.setdefault('rule', res.get('rule', ''))
    write_evidence(prop, a.tier, seed, res.get('level', 'model_checking'), cov,
                   COMMON_ASSUMPTIONS + list(res.get('assumptions', [])), wall, nviol)

    # vacuity guards: a check that explored nothing must not report success
    problems = []
    if cov['traces_validated_against_impl'] < 1 or cov['states'] < 1 or cov['transitions'] < 1:
        problems.append('nothing explored')
    if cov['distinct_nontrivial'] < 2:
        problems.append('fewer than 2 distinct non-trivial cases')
    if cov['distinct_outcomes'] < 2 and not res.get('single_outcome_ok'):
        problems.append('a single distinct outcome: nothing collided')
    if not cov['samples']:
        problems.append('no samples')
    for p in res.get('vacuity', []):
        problems.append(p)
    out('%s tier=%s seed=%d states=%d transitions=%d executions=%d distinct_nontrivial=%d outcomes=%d '
        'failing=%d known=%d violations=%d wall=%.1fs' % (
            prop, a.tier, seed, cov['states'], cov['transitions'], cov['traces_validated_against_impl'],
            cov['distinct_nontrivial'], cov['distinct_outcomes'], st.nfail,
            sum(n for _, n in known.values()), nviol, wall))
    if nviol:
        return 1
    if problems:
        sys.stderr.write('HARNESS ERROR in %s: vacuous run: %s\n' % (prop, '; '.join(problems)))
        return 2
    return 0


def do_replay(mod, prop, path):
    with open(path) as fh:
        body = json.load(fh)
    st = Stats()
    try:
        if isinstance(body['case'], dict) and body['case'].get('kind') == 'library-constant':
            from .explore import replay_constant
            replay_constant(body['case'], st)
        else:
            from . import modstate
            modstate.baseline()
            modstate.snapshot()
            mod.replay(body['case'], st)
            modstate.report_constants(st, body['case'], 'replay')
    except HarnessError as e:
        sys.stderr.write('HARNESS ERROR replaying %s: %s\n' % (path, e))
        return 2
    same = [f for f in st.failures if f['symptom'] == body['symptom']]
    if same or st.failures:
        f = (same or st.failures)[0]
        out('VIOLATION property=%s replay=%s symptom=%s sig=%s' % (
            prop, path, f['symptom'], json.dumps(jsonable(f['sig']), sort_keys=True)))
        out(json.dumps(jsonable(f['detail']), indent=1, sort_keys=True)[:4000])
        return 1
    out('replay of %s: no longer fails' % path)
    return 0
