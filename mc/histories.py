"""Driver B: explicit-state breadth-first search over real-object histories.

Every transition applies ONE real operation to a REAL object, in lock-step with a boring reference
model.  A state is the event history that reaches it; ``build`` replays it on a fresh object (live
objects rarely copy).  States are deduplicated on a canonical key that contains the model state AND
the implementation's property-relevant hidden state, so histories the model cannot tell apart but
the implementation can are not merged.
"""
import sys

from . import modstate
from .explore import Stats, pmap, chunks, seeded_rng, HarnessError, h64


class Spec(object):
    """Interface a property harness implements."""
    name = 'spec'

    def roots(self):            # -> list of JSON-able root descriptors
        return [None]

    def fresh(self, root):      # -> (impl, model)
        raise NotImplementedError

    def ops(self, impl, model):  # -> list of JSON-able op descriptors enabled in this state
        raise NotImplementedError

    def step(self, impl, model, op, st, hist):
        """Apply op to both sides, compare what the operation returned/raised, record failures.
        Return False if the state must not be expanded further (implementation state is broken)."""
        raise NotImplementedError

    def check(self, impl, model, st, hist):
        """Invariant over everything the property makes observable.  Return False to stop expanding."""
        raise NotImplementedError

    def key(self, impl, model):
        raise NotImplementedError

    def derived_roots(self, impl, model, hist, root):
        """Optional: new roots (descriptors) derived from this state, e.g. slices of a grid."""
        return []


def build(spec, root, hist, st=None):
    impl, model = spec.fresh(root)
    scratch = st if st is not None else Stats()
    for op in hist:
        spec.step(impl, model, op, scratch, None)
    return impl, model


def _expand(spec_factory, items):
    """Worker: expand every (root, hist) in items by every enabled op."""
    spec = spec_factory()
    st = Stats()
    out = []
    for root, hist in items:
        impl, model = build(spec, root, hist)
        ops = spec.ops(impl, model)
        for op in ops:
            impl, model = build(spec, root, hist)
            nhist = hist + [op]
            ok = spec.step(impl, model, op, st, (root, nhist))
            st.count('transitions')
            st.count('executions')
            # the key is taken BEFORE the invariant reads the object: observation may itself change
            # hidden state (a lazily built index), and replicas used for expansion never see those reads
            key = spec.key(impl, model) if ok is not False else None
            if ok is not False:
                ok = spec.check(impl, model, st, (root, nhist))
            if modstate.report_constants(st, {'root': root, 'history': [list(o) if isinstance(o, tuple) else o for o in nhist]},
                                         'after the last operation of the history'):
                ok = False
            if ok is False:
                st.count('states_not_expanded_after_failure')
                continue
            out.append((key, root, nhist))
            for nroot in spec.derived_roots(impl, model, nhist, root):
                dimpl, dmodel = spec.fresh(nroot)
                dkey = spec.key(dimpl, dmodel)
                st.count('derived_roots')
                if spec.check(dimpl, dmodel, st, (nroot, [])) is not False:
                    out.append((dkey, nroot, []))
    return st, out


def bfs(spec_factory, depth, seed=0, jobs=1, st=None, max_states=None, collect=None):
    """Breadth-first search to `depth` (or to the fixpoint if the frontier empties first).
    Returns (stats, info)."""
    st = st if st is not None else Stats()
    spec = spec_factory()
    seen = {}
    frontier = []
    for root in spec.roots():
        impl, model = spec.fresh(root)
        k = spec.key(impl, model)
        st.count('executions')
        if spec.check(impl, model, st, (root, [])) is False:
            st.count('states_not_expanded_after_failure')
            continue
        if k not in seen:
            seen[k] = (root, [])
            frontier.append((root, []))
            st.count('states')
    rng = seeded_rng(seed, 'bfs/' + spec.name)
    level = 0
    capped = False
    while frontier and level < depth:
        level += 1
        rng.shuffle(frontier)
        nxt = []
        parts = chunks(frontier, max(1, jobs * 4)) if len(frontier) > 8 else [frontier]
        for pst, out in pmap(_expand, [(spec_factory, p) for p in parts], jobs if len(parts) > 1 else 1):
            st.merge(pst)
            if max_states and len(seen) > max_states:
                capped = True
                break                   # (the pool is torn down by pmap; nothing more is expanded)
            for key, root, hist in out:
                # the canonical key determines the futures whatever root the state was reached from
                k = key
                if k in seen:
                    continue
                seen[k] = True
                st.count('states')
                nxt.append((root, hist))
                if collect is not None:
                    collect.append((root, hist))
                if len(hist) <= 6 and len(st.samples) < 5 and len(hist) >= min(3, depth):
                    st.samples.append({'root': root, 'history': hist})
        frontier = nxt
        if capped or (max_states and len(seen) > max_states):
            capped = True
            break
    for k in seen:
        st.nontrivial.add(h64(k))
        st.inputs.add(h64(k))
    info = {'depth_reached': level, 'frontier_left': len(frontier), 'fixpoint': not frontier, 'capped': capped,
            'distinct_states': len(seen)}
    return st, info


def describe_attr(obj, v):
    """Canonical description of an instance attribute for a state key: plain data by value; a callable by its name and by WHOSE it
    is (a bound method of one of the object's own attributes, of the object itself, or of a foreign object); other objects by
    type and, where cheap, by their own plain attributes — never by address."""
    import re
    if callable(v) and not isinstance(v, type):
        owner = getattr(v, '__self__', None)
        whose = 'unbound'
        if owner is obj:
            whose = 'self'
        elif owner is not None:
            whose = 'foreign'
            for k, x in vars(obj).items():
                if x is owner:
                    whose = 'own.' + k
        return ('callable', getattr(v, '__name__', type(v).__name__), whose)
    return re.sub(r' at 0x[0-9a-fA-F]+', ' at <addr>', repr(v)[:200])


def outcome(fn, *a, **kw):
    """('ok', value) or ('raise', ExceptionClassName)"""
    try:
        return ('ok', fn(*a, **kw))
    except Exception as e:  # noqa
        return ('raise', type(e).__name__)
