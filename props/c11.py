# -*- coding: utf-8 -*-
"""C11 — Grid.filter selects exactly the rows the Haystack filter denotes.

Driver A over programs x data.  The generator builds the filter AST (so no reference parser is
needed), renders it with spacing / parenthesis variation and evaluates it with a three-valued
reference evaluator (ref/reffilter.py):
 (1) structure: ALL and/or trees with <= n leaves, each leaf testing its own tag with either
     polarity, on the grid of all presence valuations (the truth table identifies the function);
 (2) atoms: every path shape x every operator x every literal kind x every row valuation class;
 (3) composition: every atom under every connective position;
 (4) limit, empty filter, result-grid header, source grid untouched.
"""
import itertools

from mc.explore import Stats, pmap, chunks, seeded_rng, HarnessError
from ref import neutral as N, observe as O, reffilter as RF
from ref.catalogue import _dt, _fx

MK = N.MARKER
TAGS = ['a', 'b', 'c', 'd', 'e']
CMPOPS = ['==', '!=', '<', '<=', '>', '>=']


def literals():
    """name -> dict(lit, below, above, other)"""
    s = lambda x: ('str', x)  # noqa: E731
    L = []

    def add(name, lit, below=None, above=None, other=None, soft=False):
        L.append({'name': name, 'lit': lit, 'below': below, 'above': above, 'other': other if other is not None else s('zz'), 'soft': soft})
    add('number', N.num(5.0), N.num(4.0), N.num(6.0))
    add('number-neg-frac', N.num(-1.5), N.num(-2.5), N.num(0.0))
    add('quantity', N.num(5.0, 'kg'), N.num(4.0, 'kg'), N.num(6.0, 'kg'))
    add('quantity-negative', N.num(-5.0, 'kW'), N.num(-6.0, 'kW'), N.num(-4.0, 'kW'))
    add('quantity-neg-frac-nonascii-unit', N.num(-0.5, u'\xb0C'), N.num(-1.5, u'\xb0C'), N.num(0.5, u'\xb0C'))
    add('str', s('m'), s('l'), s('n'), other=N.num(7.0))
    add('str-escapes', s('a"b\\c\nd'), s('a"b\\c\nc'), s('a"b\\c\ne'), other=N.num(7.0))
    add('str-unicode', s(u'é'), s(u'è'), s(u'ê'), other=N.num(7.0))
    add('str-empty', s(''), None, s('a'), other=N.num(7.0))
    add('str-blank-runs', s('a  b'), s('a   b'), s('a b'), other=N.num(7.0))
    add('uri-blank-runs', ('uri', 'a  b'), other=('uri', 'a b'))
    add('uri', ('uri', 'http://x/y'), other=s('http://x/y'))
    add('ref', ('ref', 'x', None), other=s('x'))
    add('ref-display', ('ref', 'x', 'dis'), other=('ref', 'x', None))
    add('bool-true', ('bool', True), other=s('true'))
    add('bool-false', ('bool', False), other=s('false'))
    add('date', ('date', 2020, 6, 15), ('date', 2020, 6, 14), ('date', 2020, 6, 16))
    add('time', ('time', 12, 0, 0, 0), ('time', 11, 59, 59, 0), ('time', 12, 0, 1, 0))
    add('time-frac', ('time', 12, 0, 0, 500000), ('time', 12, 0, 0, 0), ('time', 12, 0, 1, 0))
    add('datetime-utc', _dt('UTC', 2020, 6, 15, 12, 0, 0), _dt('UTC', 2020, 6, 15, 11, 59, 59), _dt('UTC', 2020, 6, 15, 12, 0, 1))
    add('datetime-zone', _dt('New_York', 2020, 6, 15, 12, 0, 0), _dt('New_York', 2020, 6, 15, 11, 59, 59), _dt('New_York', 2020, 6, 15, 12, 0, 1))
    add('datetime-offset', _fx(60, 2020, 6, 15, 12, 0, 0), _fx(60, 2020, 6, 15, 11, 59, 59), _fx(60, 2020, 6, 15, 12, 0, 1))
    add('coord', ('coord', 1.5, -2.0), other=s('C(1.5,-2)'))
    add('na', N.NA, other=s('NA'))
    add('marker', N.MARKER, other=s('M'))
    add('list', ('list', (N.num(1.0), N.num(2.0))), other=s('[1,2]'))
    add('dict', N.mkdict([('a', MK), ('b', N.num(2.0))]), other=s('{a b:2}'))
    add('xstr', ('xstr', 'hex', b'\x01\x02'), other=s('0102'))
    add('xstr-text', ('xstr', 'Foo', 'bar'), other=s('bar'))
    add('bin', ('bin', 'text/plain'), other=s('text/plain'), soft=True)
    add('inf', N.num(float('inf')), N.num(1e300), None)
    add('neg-inf', N.num(float('-inf')), None, N.num(-1e300))
    return L


LITS = literals()
LIT_BY_NAME = {l['name']: l for l in LITS}
PATHS = [('a',), ('r', 'a'), ('r', 'r', 'a'), ('note',), ('order',), ('android',), ('nota',), ('andy',), ('r', 'r'), ('a', 'a'), ('a', 'r', 'a'), ('p', 'q', 'a')]
VALUATIONS = ['raising', 'other-kind', 'absent', 'null', 'marker', 'equal', 'below', 'above']


def val_for(L, v):
    """neutral value of the tested tag under valuation v, or None for absent / not applicable."""
    if v == 'absent':
        return 'ABSENT'
    if v == 'null':
        return N.NULL
    if v == 'marker':
        return MK if L['lit'] != MK else ('str', 'zz')
    if v == 'equal':
        return L['lit']
    if v == 'below':
        return L['below']
    if v == 'above':
        return L['above']
    if v == 'other-kind':
        return L['other']
    if v == 'raising':
        # a value of the literal's kind whose comparison with the literal raises inside Python (another unit; a date-time with
        # another notion of time zone): the row is a don't-care, but it is evaluated BEFORE the rows that are pinned
        lit = L['lit']
        if lit[0] == 'num' and lit[2] is not None:
            return N.num(lit[1] + 1.0, 'zz' if lit[2] != 'zz' else 'yy')
        if lit[0] == 'num':
            return N.num(lit[1] + 1.0, 'kg') if lit[1] == lit[1] and lit[1] not in (float('inf'), float('-inf')) else None
        return None
    raise HarnessError(v)


def mkid(style, name):
    if style == 'str':
        return ('str', name)
    if style == 'ref':
        return ('ref', name, None)
    return ('ref', name, 'Display ' + name)


def atom_rows(path, L, idstyle):
    """Rows (neutral dicts) exercising every valuation of the atom's tag, and the rows that are judged."""
    rows, judged = [], []
    tag = path[-1]
    k = 0
    for v in VALUATIONS:
        val = val_for(L, v)
        if val is None:
            continue
        k += 1
        target = {'id': mkid(idstyle, 't%d' % k)}
        if val != 'ABSENT':
            target[tag] = val
        if len(path) == 1:
            rows.append(target)
            judged.append((v, target))
        else:
            chain = [target]
            for depth in range(len(path) - 1):
                hop = path[len(path) - 2 - depth]          # the tag that holds the reference at this hop
                src = {'id': mkid(idstyle, 's%d_%d' % (k, depth)), hop: ('ref', chain[-1]['id'][1], None)}
                chain.append(src)
            rows.extend(chain)
            judged.append((v, chain[-1]))
    if len(path) > 1:
        dangling = {'id': mkid(idstyle, 'dangling'), path[0]: ('ref', 'nowhere', None)}
        rows.append(dangling)
        judged.append(('dangling-ref', dangling))
        noid = {'id': mkid(idstyle, 'noref')}
        rows.append(noid)
        judged.append(('no-ref-tag', noid))
    return rows, judged


def build_grid(hs, rows):
    cols = []
    for r in rows:
        for kk in r:
            if kk not in cols:
                cols.append(kk)
    g = hs.Grid(version='3.0', metadata={'gm': 'meta'}, columns=[(c, [('cm', 'x')] if c == 'id' else []) for c in (cols or ['id'])])
    objs = []
    for r in rows:
        o = {kk: O.build(v, hs) for kk, v in r.items()}
        g.append(o)
        objs.append(o)
    return g, objs


def run_filter(hs, g, text, limit=0):
    try:
        res = g.filter(text, limit) if limit else g.filter(text)
        return ('ok', res)
    except BaseException as e:  # noqa
        return ('raise', type(e).__name__, repr(e)[:200])


def row_eval(hs, g, text, row):
    from hszinc import grid_filter
    try:
        return ('ok', bool(grid_filter.filter_function(text)(g, row)))
    except BaseException as e:  # noqa
        return ('raise', type(e).__name__, repr(e)[:200])


def judge(hs, ast, text, rows, judged, st, sig, case, check_header=True):
    """Evaluate one filter text on one grid and compare with the reference on every judged row."""
    g, objs = build_grid(hs, rows)
    index = {id(r): o for r, o in zip(rows, objs)}
    before = O.observe_grid(g, hs)
    # reference answers come from a twin grid that is never filtered (taking them from g itself would build g's
    # lazily built id index before the filter runs and so hide index-dependent behaviour)
    twin, _ = build_grid(hs, rows)
    lookups_before = lookup_snapshot(hs, twin, rows)
    out = run_filter(hs, g, text)
    st.count('executions')
    expected = []
    for label, r in judged:
        ev = RF.evaluate(ast, r, rows)
        expected.append((label, r, ev))
    all_definite = all(ev in (True, False) for r in rows for ev in [RF.evaluate(ast, r, rows)])
    ok = True
    if out[0] == 'ok':
        res = out[1]
        got_rows = list(res)
        if any(not any(x is o for o in objs) for x in got_rows):
            st.fail('filter-result-row-is-not-a-source-row', sig, case, {'filter': text})
            ok = False
        pos = [next(i for i, o in enumerate(objs) if o is x) for x in got_rows if any(o is x for o in objs)]
        if pos != sorted(pos) or len(set(pos)) != len(pos):
            st.fail('filter-result-order-differs', sig, case, {'filter': text, 'positions': pos})
            ok = False
        for label, r, ev in expected:
            if ev not in (True, False):
                continue
            sel = any(x is index[id(r)] for x in got_rows)
            if sel != ev:
                st.fail('filter-selects-wrong-rows', dict(sig, valuation=label, expected='selected' if ev else 'not-selected'), case,
                        {'filter': text, 'row': N.show(('dict', tuple(sorted(r.items()))), 300)})
                ok = False
        if check_header:
            hdr_ok = (str(res.version) == str(g.version) and list(res.metadata.items()) == list(g.metadata.items())
                      and list(res.column.keys()) == list(g.column.keys()))
            if not hdr_ok:
                st.fail('filter-result-lost-version-metadata-or-columns', sig, case, {'filter': text})
                ok = False
    else:
        # the filter as a whole may have been rejected (parse / compile error): report that once
        probe = row_eval(hs, g, text, {})
        if probe[0] == 'raise' and probe[1] in ('ParseException', 'ParseSyntaxException', 'SyntaxError', 'NameError'):
            st.fail('valid-filter-rejected', dict(sig, exc=probe[1]), case, {'filter': text, 'exc': probe[2]})
            return False
        # otherwise attribute the exception row by row
        blamed = False
        for label, r, ev in expected:
            one = row_eval(hs, g, text, index[id(r)])
            st.count('executions')
            if one[0] == 'raise':
                if ev in (True, False):
                    st.fail('filter-raised-on-a-row-with-definite-value', dict(sig, valuation=label, exc=one[1]), case,
                            {'filter': text, 'exc': one[2], 'row': N.show(('dict', tuple(sorted(r.items()))), 300)})
                    blamed = True
                    ok = False
                else:
                    st.count('raised_on_dont_care_row')
            elif ev in (True, False) and one[1] != ev:
                st.fail('filter-selects-wrong-rows', dict(sig, valuation=label, expected='selected' if ev else 'not-selected'), case,
                        {'filter': text, 'row': N.show(('dict', tuple(sorted(r.items()))), 300)})
                ok = False
        if not blamed:
            # the filter as a whole failed (e.g. did not parse / compile)
            probe = row_eval(hs, g, text, {})
            if all_definite or probe[0] == 'raise':
                defin = any(ev in (True, False) for _, _, ev in expected)
                if defin and not any(row_eval(hs, g, text, index[id(r)])[0] == 'ok' for _, r, _ in expected):
                    st.fail('valid-filter-rejected', dict(sig, exc=out[1]), case, {'filter': text, 'exc': out[2]})
                    ok = False
    # the same rows, but the grid GROWS between two evaluations: first half, evaluate, append the rest one by one, evaluate
    if out[0] == 'ok' and len(rows) >= 2:
        h = len(rows) // 2
        g2, objs2 = build_grid(hs, rows[:h])
        run_filter(hs, g2, text)
        for r in rows[h:]:
            o = {kk: O.build(v, hs) for kk, v in r.items()}
            g2.append(o)
            objs2.append(o)
        out2 = run_filter(hs, g2, text)
        st.count('executions')
        pos1 = [k for x in out[1] for k, o in enumerate(objs) if o is x]
        pos2 = [k for x in out2[1] for k, o in enumerate(objs2) if o is x] if out2[0] == 'ok' else 'raised ' + str(out2[1])
        if pos2 != pos1:
            st.fail('filter-result-differs-on-a-grid-that-grew-after-an-earlier-evaluation', sig, case,
                    {'filter': text, 'rows_selected_on_the_grid_built_at_once': pos1, 'rows_selected_after_growing': pos2, 'appended_from': h})
            ok = False
        # ... and the same growth through ONE extend() that is refused at its last element (a non-dict), on a grid whose id index
        # exists already: the rows accepted before the refusal are rows of the grid like any other
        g3, objs3 = build_grid(hs, rows[:h])
        run_filter(hs, g3, text)
        try:
            g3.get('nowhere-at-all')
        except Exception:  # noqa
            pass
        rest = [{kk: O.build(v, hs) for kk, v in r.items()} for r in rows[h:]]
        try:
            g3.extend(rest + [5])
        except TypeError:
            pass
        if len(g3) == len(rows):
            objs3.extend(rest)
            out3 = run_filter(hs, g3, text)
            st.count('executions')
            pos3 = [k for x in out3[1] for k, o in enumerate(objs3) if o is x] if out3[0] == 'ok' else 'raised ' + str(out3[1])
            if pos3 != pos1:
                st.fail('filter-result-differs-on-a-grid-that-grew-after-an-earlier-evaluation', dict(sig, growth='extend refused at its last element'), case,
                        {'filter': text, 'rows_selected_on_the_grid_built_at_once': pos1, 'rows_selected_after_growing': pos3, 'extended_from': h})
                ok = False
    after = O.observe_grid(g, hs)
    if N.same(before, after, 'exact') or N.same(after, before, 'exact'):
        st.fail('filter-modified-the-source-grid', sig, case, {'filter': text})
        ok = False
    lookups_after = lookup_snapshot(hs, g, rows)
    if lookups_after != lookups_before:
        changed = [k for k in lookups_before if lookups_before[k] != lookups_after.get(k)]
        st.fail('filter-changed-what-the-source-grid-answers', dict(sig, lookup=str(changed[0])[:40] if changed else '?'), case,
                {'filter': text, 'before': str(lookups_before)[:300], 'after': str(lookups_after)[:300]})
        ok = False
    return ok


def lookup_snapshot(hs, g, rows):
    """What the grid answers to id lookups under every spelling of every row id (observable state beyond the rows)."""
    snap = {}
    for r in rows:
        i = r.get('id')
        if i is None:
            continue
        name = i[1]
        for label, key in (('name', name), ('at-name', '@' + name), ('Ref', hs.Ref(name))):
            try:
                got = g.get(key)
                snap[(name, label)] = None if got is None else [k for k, x in enumerate(g) if x is got]
            except Exception as e:  # noqa
                snap[(name, label)] = 'raised ' + type(e).__name__
    return snap


# ---- (1) structure --------------------------------------------------------------------------------

def structure_filters(nleaves):
    for n in range(1, nleaves + 1):
        for pol in itertools.product((True, False), repeat=n):
            leaves = [(('has' if p else 'not'), (TAGS[i],)) for i, p in enumerate(pol)]
            for t in RF.trees(leaves):
                yield n, t


def structure_task(asts, styles):
    import hszinc as hs
    st = Stats()
    for n, ast in asts:
        rows = []
        for bits in itertools.product((False, True), repeat=n):
            r = {'id': ('str', 'r' + ''.join('1' if b else '0' for b in bits))}
            for i, b in enumerate(bits):
                if b:
                    r[TAGS[i]] = MK
            rows.append(r)
        judged = [('valuation', r) for r in rows]
        for style, sp in styles:
            text = RF.render(ast, style, sp)
            sig = {'part': 'structure', 'leaves': n, 'style': style, 'shape': shape_of(ast)}
            case = {'part': 'structure', 'ast': ast, 'style': style, 'sp': sp}
            ok = judge(hs, ast, text, rows, judged, st, sig, case, check_header=False)
            st.case(('structure', text), outcome=('structure', ok, n),
                    sample={'filter': text, 'rows': len(rows)} if n >= 3 else None)
    return st


def shape_of(ast):
    if ast[0] in ('and', 'or'):
        return '(%s %s %s)' % (shape_of(ast[1]), ast[0], shape_of(ast[2]))
    return '_'


# ---- (2) atoms ----------------------------------------------------------------------------------------

def atom_cases(quick):
    ids = ['str', 'ref', 'ref-display']
    for L in LITS:
        for path in PATHS:
            if quick and path in (('r', 'r', 'a'), ('order',), ('android',), ('andy',), ('r', 'r'), ('a', 'a'), ('a', 'r', 'a'), ('p', 'q', 'a')) and L['name'] not in ('number', 'str', 'date', 'ref'):
                continue
            for idstyle in ids:
                if len(path) == 1 and idstyle != 'str' and L['name'] != 'number':
                    continue
                if quick and idstyle == 'ref-display' and L['name'] not in ('number', 'str', 'ref'):
                    continue
                yield L['name'], path, idstyle


def atom_task(cases):
    import hszinc as hs
    st = Stats()
    for lname, path, idstyle in cases:
        L = LIT_BY_NAME[lname]
        rows, judged = atom_rows(path, L, idstyle)
        asts = [('has', path), ('not', path)] + [('cmp', op, path, L['lit']) for op in CMPOPS]
        for ast in asts:
            if ast[0] != 'cmp' and lname != 'number':
                continue            # has / not do not depend on the literal: once per path
            text = RF.render(ast)
            sig = {'part': 'atom', 'op': ast[1] if ast[0] == 'cmp' else ast[0], 'literal': lname, 'path': '->'.join(path),
                   'ids': idstyle}
            case = {'part': 'atom', 'literal': lname, 'path': list(path), 'ids': idstyle, 'op': sig['op']}
            ok = judge(hs, ast, text, rows, judged, st, sig, case)
            st.case(('atom', text, idstyle), outcome=('atom', ok, lname, sig['op']), sample={'filter': text, 'ids': idstyle, 'rows': len(rows)} if lname == 'date' else None)
    return st


# ---- (3) composition ---------------------------------------------------------------------------------------

def composition_task(cases):
    import hszinc as hs
    st = Stats()
    for lname, op, k in cases:
        L = LIT_BY_NAME[lname]
        X = ('cmp', op, ('a',), L['lit'])
        B, C = ('has', ('b',)), ('not', ('c',))
        shapes = [('and', X, B), ('and', B, X), ('or', X, B), ('or', B, X), ('and', ('or', X, B), C), ('or', B, ('and', C, X)),
                  ('and', ('and', B, X), C), ('or', ('or', B, C), X)]
        ast = shapes[k]
        rows = []
        for v in VALUATIONS:
            val = val_for(L, v)
            if val is None:
                continue
            for hb in (False, True):
                for hc in (False, True):
                    r = {'id': ('str', 'r%d' % len(rows))}
                    if val != 'ABSENT':
                        r['a'] = val
                    if hb:
                        r['b'] = MK
                    if hc:
                        r['c'] = MK
                    rows.append(r)
        judged = [('row%d' % i, r) for i, r in enumerate(rows)]
        for style in ('min', 'full'):
            text = RF.render(ast, style)
            sig = {'part': 'composition', 'op': op, 'literal': lname, 'shape': shape_of(ast), 'position': k}
            case = {'part': 'composition', 'literal': lname, 'op': op, 'k': k, 'style': style}
            ok = judge(hs, ast, text, rows, judged, st, sig, case, check_header=False)
            st.case(('composition', text), outcome=('composition', ok, lname))
    return st


# ---- (3b) two comparison atoms in one filter: every ordered pair of literal kinds ----------------------------

def _variants(L):
    lit = L['lit']
    out = []
    if lit[0] == 'num' and lit[1] == lit[1] and lit[1] not in (float('inf'), float('-inf')):
        if lit[2] is not None:
            out += [N.num(lit[1], 's' if lit[2] != 's' else 'kg'), N.num(lit[1], None)]
        else:
            out += [N.num(lit[1], 'kg')]
    return out


def pair_task(cases):
    """`a op1 L1 <and|or> b op2 L2`: the literals of one filter are independent of each other, whatever their kinds
    (rows take each literal's value, and its same-magnitude relatives, under either tag)."""
    import hszinc as hs
    st = Stats()
    for n1, n2, conn, op1, op2 in cases:
        L1, L2 = LIT_BY_NAME[n1], LIT_BY_NAME[n2]
        ast = (conn, ('cmp', op1, ('a',), L1['lit']), ('cmp', op2, ('b',), L2['lit']))
        avals, bvals = [], []
        for v in [L1['lit'], L2['lit']] + _variants(L1) + _variants(L2):
            if v not in avals:
                avals.append(v)
        for v in [L2['lit'], L1['lit']] + _variants(L2) + _variants(L1):
            if v not in bvals:
                bvals.append(v)
        rows = []
        for av in avals:
            for bv in bvals:
                rows.append({'id': ('str', 'r%d' % len(rows)), 'a': av, 'b': bv})
        judged = [('row%d' % i, r) for i, r in enumerate(rows)]
        text = RF.render(ast, 'min')
        sig = {'part': 'pair', 'literals': '%s,%s' % (n1, n2), 'ops': op1 + ',' + op2, 'conn': conn}
        case = {'part': 'pair', 'l1': n1, 'l2': n2, 'conn': conn, 'op1': op1, 'op2': op2}
        ok = judge(hs, ast, text, rows, judged, st, sig, case, check_header=False)
        st.case(('pair', text), outcome=('pair', ok, n1 == n2))
    return st


# ---- (3c) a long compile history with filters that stay in use --------------------------------------------

def hot_filter_history(st, n=1300):
    """More distinct filters than any cache holds are compiled one after the other while three filters stay in use
    throughout; after every step the filters in use and the filter just compiled must still answer as at first."""
    import hszinc as hs
    rows = [{'id': ('str', 'r0'), 'site': MK, 'a': N.num(5.0)}, {'id': ('str', 'r1'), 'b': MK, 'a': N.num(6.0)},
            {'id': ('str', 'r2'), 'site': MK, 'b': MK}, {'id': ('str', 'r3'), 'n': N.num(7.0)}]
    g, objs = build_grid(hs, rows)
    hot = [('site', [0, 2]), ('a == 5', [0]), ('not b', [0, 3])]

    def answer(text):
        out = run_filter(hs, g, text)
        if out[0] != 'ok':
            return 'raised ' + out[1]
        return [k for x in out[1] for k, o in enumerate(objs) if o is x]
    for i in range(n):
        text = 'n == %d' % i if i % 2 else 'not t%d' % i
        want = ([3] if i == 7 else []) if i % 2 else [0, 1, 2, 3]
        checks = [(text, want, 'filter-just-compiled')] + [(h, w, 'filter-in-use') for h, w in (hot if i % 5 == 0 else [hot[i % 3]])]
        for t, w, role in checks:
            got = answer(t)
            st.count('executions')
            if got != w:
                st.fail('filter-answer-changed-after-other-filters-were-compiled', {'part': 'hot-history', 'role': role, 'filter': t},
                        {'part': 'hot-history'}, {'filter': t, 'expected_rows': w, 'observed': got, 'distinct_filters_compiled_before': i})
                return False
    st.case(('hot-history', n), outcome=('hot-history', True))
    return True


# ---- (3d) NaN: whatever a comparison with NaN answers, a unit must not change the answer ---------------------

def nan_consistency(st):
    """The reference leaves comparisons with NaN unpinned (IEEE says false, the Java reference orders NaN last).  Pinned here:
    `a op 5` on a NaN cell and `a op 5kW` on a NaN-kW cell answer alike (NaN with a unit is not a literal, so no mirrored pair)."""
    import hszinc as hs
    nan = float('nan')
    for op in CMPOPS:
        answers = {}
        for label, lit, cell in (('plain', N.num(5.0), N.num(nan)), ('unit', N.num(5.0, 'kW'), N.num(nan, 'kW'))):
            rows = [{'id': ('str', 'r0'), 'a': cell}, {'id': ('str', 'r1'), 'a': lit}]
            g, objs = build_grid(hs, rows)
            text = RF.render(('cmp', op, ('a',), lit))
            out = run_filter(hs, g, text)
            st.count('executions')
            answers[label] = [k for x in out[1] for k, o in enumerate(objs) if o is x] if out[0] == 'ok' else 'raised ' + str(out[1])
        st.case(('nan', op), outcome=('nan', str(answers)))
        for a, b in (('plain', 'unit'),):
            if answers[a] != answers[b]:
                st.fail('unit-changes-the-answer-of-a-comparison-with-NaN', {'part': 'nan', 'op': op, 'pair': a}, {'part': 'nan'},
                        {'op': op, 'rows_selected': answers})


# ---- (3e) a source grid whose id index exists, with ids that share a string form --------------------------------

def index_aliasing_checks(st):
    """Filtering a grid that already has its id index (a parsed grid, or any grid after one lookup) must leave the answers of
    the SOURCE unchanged, and the RESULT answers lookups with its own rows only."""
    import hszinc as hs

    def mk():
        g = hs.Grid(version='3.0', columns=[('id', []), ('x', []), ('y', [])])
        for r in ({'id': 'a', 'x': hs.MARKER}, {'id': 'b'}, {'id': 'a', 'y': hs.MARKER}, {'id': 7, 'x': hs.MARKER}, {'id': '7', 'y': hs.MARKER},
                  {'id': hs.Ref('r', 'dis'), 'x': hs.MARKER}, {'id': hs.Ref('r'), 'y': hs.MARKER}):
            g.append(r)
        return g
    keys = ['a', 'b', '7', 7, '@r', hs.Ref('r'), 'zz']

    def answers(g):
        out = []
        for k in keys:
            try:
                hit = g.get(k)
                out.append(None if hit is None else [i for i, r in enumerate(g) if r is hit])
            except Exception as e:  # noqa
                out.append('raised ' + type(e).__name__)
        return out
    for how in ('get', 'getitem', 'extend', 'none'):
        for text in ('x', 'y', 'not x', 'id', 'x or y', 'x and not y', 'zz'):
            g, twin = mk(), mk()
            for t in (g, twin):
                if how == 'get':
                    t.get('zz')
                elif how == 'getitem':
                    t['b']
                elif how == 'extend':
                    t.extend([])
            want = answers(twin)
            out = run_filter(hs, g, text)
            st.count('executions')
            case = {'part': 'index-aliasing', 'index_built_by': how, 'filter': text}
            sig = {'part': 'index-aliasing', 'index_built_by': how}
            st.case(('index-aliasing', how, text), outcome=('index-aliasing', out[0]))
            if out[0] != 'ok':
                st.fail('valid-filter-rejected', dict(sig, exc=out[1]), case, {'filter': text})
                continue
            got = answers(g)
            if got != want:
                st.fail('filter-changed-what-the-source-grid-answers', dict(sig, lookup=str([k for k, a, b in zip(keys, got, want) if a != b][0])), case,
                        {'filter': text, 'before': str(want), 'after': str(got)})
            # a full-length slice taken from the indexed source is a grid of its own: rows appended to EITHER later are not
            # reachable through the other (lookups, and reference-following filters)
            sl = g[:]
            g.append({'id': 'late-src', 'x': hs.MARKER, 'tgt': hs.MARKER})
            sl.append({'id': 'late-slice', 'y': hs.MARKER, 'tgt': hs.MARKER})
            g.append({'id': 'p1', 'r': hs.Ref('late-slice')})
            sl.append({'id': 'p2', 'r': hs.Ref('late-src')})
            leaks = []
            for name, grid, foreign, own in (('source', g, 'late-slice', 'late-src'), ('slice', sl, 'late-src', 'late-slice')):
                try:
                    if grid.get(foreign) is not None:
                        leaks.append('%s.get(%r) finds a row of the other grid' % (name, foreign))
                    if grid.get(own) is None:
                        leaks.append('%s.get(%r) misses its own row' % (name, own))
                    sel = [r.get('id') for r in grid.filter('r->tgt')]
                    if sel:
                        leaks.append('%s: r->tgt follows a reference into the other grid: %r' % (name, sel))
                except Exception as e:  # noqa
                    leaks.append('%s raised %s' % (name, type(e).__name__))
            st.count('executions')
            if leaks:
                st.fail('source-and-derived-grid-share-lookup-state', dict(sig, derived='full-slice'), case, {'filter': text, 'leaks': leaks[:4]})
            res = out[1]
            mine = list(res)
            for k in keys:
                try:
                    hit = res.get(k)
                except Exception:  # noqa
                    hit = None
                if hit is not None and not any(hit is r for r in mine):
                    st.fail('filter-result-answers-lookups-with-rows-it-does-not-hold', dict(sig, lookup=str(k)), case, {'filter': text})
                    break


# ---- (3f) tag names that collide once mangled, or that are words of any plausible generated code ------------------------

def name_collision_checks(st):
    import hszinc as hs
    S = lambda x: ('str', x)  # noqa: E731
    rows = [{'id': ('str', 'e1'), 'siteRef': ('ref', 's1', None), 'equip': MK},
            {'id': ('str', 'e2'), 'siteRef': ('ref', 's1', None), 'siteRef_dis': MK, 'a_b': S('flat')},
            {'id': ('str', 's1'), 'dis': S('Site 1'), 'a': ('ref', 'e2', None), 'b': S('deep')},
            {'id': ('str', 'x1'), 'entity': MK, 'dis': S('Thing')}, {'id': ('str', 'x2'), 'grid': MK, 'row': MK},
            {'id': ('str', 'x3'), 'literals': MK, 'a': ('ref', 's1', None)}, {'id': ('str', 'x4'), 'compare': MK, 'get_path': S('g')},
            {'id': ('str', 'x5'), 'self': MK, 'fn': MK, 'filter': MK, 'lambda_x': MK, 'result': MK, 'value': N.num(1.0)}]
    has = lambda *p: ('has', tuple(p))  # noqa: E731
    nt = lambda *p: ('not', tuple(p))  # noqa: E731
    asts = [('and', ('cmp', '==', ('siteRef', 'dis'), S('Site 1')), nt('siteRef_dis')), ('and', has('siteRef_dis'), ('cmp', '==', ('siteRef', 'dis'), S('Site 1'))),
            ('or', ('cmp', '==', ('a', 'b'), S('deep')), ('cmp', '==', ('a_b',), S('flat'))), ('and', ('cmp', '==', ('a_b',), S('flat')), nt('a', 'b')),
            ('and', has('entity'), ('cmp', '==', ('dis',), S('Thing'))), ('and', has('grid'), has('row')), ('and', has('literals'), has('a', 'dis')),
            ('or', has('compare'), has('equip')), ('and', ('cmp', '==', ('get_path',), S('g')), has('compare')),
            ('and', has('self'), ('and', has('fn'), ('and', has('filter'), ('and', has('result'), ('cmp', '==', ('value',), N.num(1.0)))))),
            ('or', nt('entity'), has('grid')), ('and', nt('literals'), nt('compare'))]
    judged = [('row%d' % i, r) for i, r in enumerate(rows)]
    for k, ast in enumerate(asts):
        text = RF.render(ast)
        sig = {'part': 'name-collision', 'filter': text[:60]}
        case = {'part': 'name-collision', 'k': k}
        ok = judge(hs, ast, text, rows, judged, st, sig, case, check_header=False)
        st.case(('name-collision', text), outcome=('name-collision', ok))


# ---- (4) limit, empty filter -----------------------------------------------------------------------

def limit_checks(st):
    import hszinc as hs
    rows = [{'id': ('str', 'r%d' % i), 'n': N.num(float(i))} for i in range(5)]
    rows[2]['skip'] = MK
    for text, ast in (('n >= 1', ('cmp', '>=', ('n',), N.num(1.0))), ('not skip', ('not', ('skip',))), ('', None), ('   ', None), ('id', ('has', ('id',)))):
        want = [r for r in rows if ast is None or RF.evaluate(ast, r, rows) is True]
        for limit in (0, 1, 2, len(want), len(want) + 1, 99):
            g, objs = build_grid(hs, rows)
            index = {id(r): o for r, o in zip(rows, objs)}
            out = run_filter(hs, g, text, limit)
            st.count('executions')
            exp = want if not limit else want[:limit]
            sig = {'part': 'limit', 'limit': 'zero' if limit == 0 else ('below' if limit < len(want) else ('exact' if limit == len(want) else 'above')), 'empty_filter': ast is None}
            case = {'part': 'limit', 'filter': text, 'limit': limit}
            st.case(('limit', text, limit), outcome=('limit', out[0]))
            if out[0] != 'ok':
                st.fail('filter-raised-on-a-row-with-definite-value', dict(sig, exc=out[1]), case, {'exc': out[2]})
                continue
            got = list(out[1])
            if len(got) != len(exp) or any(a is not index[id(b)] for a, b in zip(got, exp)):
                st.fail('limit-or-empty-filter-wrong-rows', sig, case, {'expected': len(exp), 'observed': len(got)})
            res = out[1]
            if not (str(res.version) == str(g.version) and list(res.metadata.items()) == list(g.metadata.items()) and list(res.column.keys()) == list(g.column.keys())):
                st.fail('filter-result-lost-version-metadata-or-columns', sig, case, {})


def unversioned_checks(st):
    """A grid created without a version and upgraded to 3.0 by what it holds: the result carries that version whatever
    rows the filter selects."""
    import hszinc as hs
    for where in ('row', 'meta'):
        for text, limit in (('a', 0), ('not a', 0), ('a == 5', 0), ('zz', 0), ('', 1), ('', 0), ('a', 1)):
            g = hs.Grid(columns=[('id', []), ('a', []), ('l', [])])
            if where == 'meta':
                g.metadata['m'] = [1.0]
            g.append({'id': 'r0', 'a': 5.0})
            g.append({'id': 'r1', 'a': 6.0})
            g.append({'id': 'r2', 'l': [1.0] if where == 'row' else 'x'})
            st.count('executions')
            out = run_filter(hs, g, text, limit)
            sig = {'part': 'unversioned-source', 'where': where, 'empty_filter': text == '', 'limit': bool(limit)}
            case = {'part': 'unversioned', 'filter': text, 'limit': limit, 'where': where}
            st.case(('unversioned', where, text, limit), outcome=('unversioned', out[0]))
            if out[0] != 'ok':
                st.fail('filter-raised-on-a-row-with-definite-value', dict(sig, exc=out[1]), case, {'exc': out[2]})
                continue
            res = out[1]
            if str(res.version) != str(g.version) or list(res.metadata.items()) != list(g.metadata.items()) or list(res.column.keys()) != list(g.column.keys()):
                st.fail('filter-result-lost-version-metadata-or-columns', sig, case, {'source_version': str(g.version), 'result_version': str(res.version)})


def spacing_checks(st):
    """Operators without surrounding blanks, tabs, leading/trailing blanks."""
    import hszinc as hs
    rows = [{'id': ('str', 'r0'), 'a': N.num(5.0), 'b': MK}, {'id': ('str', 'r1'), 'a': N.num(7.0)}, {'id': ('str', 'r2'), 'b': MK}]
    ast = ('and', ('cmp', '==', ('a',), N.num(5.0)), ('has', ('b',)))
    for text in ('a==5 and b', 'a == 5 and b', ' a == 5 and b ', 'a  ==  5  and  b', '(a==5)and(b)', 'a==5 and\tb', 'a== 5 and b', 'a ==5 and b'):
        sig = {'part': 'spacing', 'text': text}
        judge(hs, ast, text, rows, [('r%d' % i, r) for i, r in enumerate(rows)], st, sig, {'part': 'spacing', 'filter': text}, check_header=False)
        st.case(('spacing', text), outcome=('spacing',))
    ast2 = ('cmp', '==', ('a',), N.num(5.0, 'kg'))
    rows2 = [{'id': ('str', 'q0'), 'a': N.num(5.0, 'kg')}, {'id': ('str', 'q1'), 'a': N.num(6.0, 'kg')}]
    for text in ('a == 5kg', 'a==5kg', 'a ==  5kg'):
        judge(hs, ast2, text, rows2, [('q%d' % i, r) for i, r in enumerate(rows2)], st, {'part': 'spacing', 'text': text}, {'part': 'spacing2', 'filter': text}, check_header=False)


def run(ctx):
    st = Stats()
    nleaves = 4 if ctx.quick else 5
    styles = [('min', ' '), ('full', ' '), ('redundant', ' '), ('min', '  ')] if ctx.quick else \
        [(s, sp) for s in ('min', 'full', 'redundant') for sp in (' ', '  ', ' \t ')]
    asts = list(structure_filters(nleaves))
    rng = seeded_rng(ctx.seed, 'c11')
    rng.shuffle(asts)
    for part in pmap(structure_task, [(c, styles) for c in chunks(asts, ctx.jobs * 4)], ctx.jobs):
        st.merge(part)
    cases = list(atom_cases(ctx.quick))
    rng.shuffle(cases)
    for part in pmap(atom_task, [(c,) for c in chunks(cases, ctx.jobs * 4)], ctx.jobs):
        st.merge(part)
    comp = [(L['name'], op, k) for L in LITS for op in (CMPOPS if not ctx.quick else ['==', '<', '!=']) for k in range(8)
            if not (ctx.quick and L['name'] not in ('number', 'str', 'date', 'datetime-zone', 'quantity', 'ref', 'bool-true', 'time'))]
    rng.shuffle(comp)
    for part in pmap(composition_task, [(c,) for c in chunks(comp, ctx.jobs * 4)], ctx.jobs):
        st.merge(part)
    names = [L['name'] for L in LITS]
    oppairs = [('==', '==')] if ctx.quick else [('==', '=='), ('<', '>'), ('!=', '=='), ('>=', '<=')]
    pairs = [(n1, n2, conn, o1, o2) for n1 in names for n2 in names for conn in ('and', 'or') for o1, o2 in oppairs]
    rng.shuffle(pairs)
    for part in pmap(pair_task, [(c,) for c in chunks(pairs, ctx.jobs * 4)], ctx.jobs):
        st.merge(part)
    for part in pmap(_hot_task, [(1300 if ctx.quick else 4000,)], ctx.jobs):
        st.merge(part)
    nan_consistency(st)
    name_collision_checks(st)
    index_aliasing_checks(st)
    limit_checks(st)
    spacing_checks(st)
    unversioned_checks(st)
    ex = st.c.get('executions', 0)
    st.c['states'], st.c['transitions'] = ex + 1, ex
    return {
        'stats': st, 'exhaustive': True,
        'rule': '(1) every and/or tree with <= %d leaves x every leaf polarity x %d renderings, each on the grid of all presence valuations; (2) every '
                'literal kind (%d) x path shape (%d) x operator (has, not, 6 comparisons) x id style, on rows realising every valuation class '
                '(absent, null, marker, equal, below, above, other kind, dangling reference, missing reference tag); (3) every atom under 8 '
                'connective positions x 2 renderings on the product of its valuations with two other tags; (3b) every ordered pair of literal kinds as two '
                'comparison atoms of one filter (and / or) on the product of both literals\' values and same-magnitude relatives under either tag; '
                '(3c) a compile history longer than the cache with three filters kept in use; (4) limit and empty filter; evaluations = '
                'filter evaluations against the real Grid.filter / generated function; distinct = distinct (filter text, id style)' % (
                    nleaves, len(styles), len(LITS), len(PATHS)),
        'coverage': {'bounds': {'max_leaves': nleaves, 'trees': len(asts), 'renderings': len(styles), 'literal_kinds': [l['name'] for l in LITS],
                                'paths': ['->'.join(p) for p in PATHS], 'atom_cases': len(cases), 'composition_cases': len(comp),
                                'literal_pair_filters': len(pairs), 'hot_history_distinct_filters': 1300 if ctx.quick else 4000}},
        'assumptions': ['three-valued oracle (DESIGN.md Appendix C): null-valued tags, NaN, number-vs-quantity and differing units, bool-vs-number are '
                        'don\'t-care; a row is compared only when the whole formula is definite; an exception on a definite row is a violation',
                        'a path whose intermediate value is not a reference is outside the statement and never generated'],
    }


def _hot_task(n):
    st = Stats()
    hot_filter_history(st, n)
    return st


def replay(case, st):
    import hszinc as hs
    p = case['part']
    if p == 'pair':
        st.merge(pair_task([(case['l1'], case['l2'], case['conn'], case['op1'], case['op2'])]))
        return
    if p == 'name-collision':
        name_collision_checks(st)
        return
    if p == 'index-aliasing':
        index_aliasing_checks(st)
        return
    if p == 'nan':
        nan_consistency(st)
        return
    if p == 'hot-history':
        hot_filter_history(st, 4000)
        return
    if p == 'structure':
        def tup(x):
            return tuple(tup(y) if isinstance(y, list) else y for y in x)
        ast = tup(case['ast'])
        n = len([1 for _ in _leaves(ast)])
        st.merge(structure_task([(n, ast)], [(case['style'], case['sp'])]))
    elif p == 'atom':
        sub = atom_task([(case['literal'], tuple(case['path']), case['ids'])])
        for f in sub.failures:
            if f['case'].get('op') == case['op']:
                st.fail(f['symptom'], f['sig'], f['case'], f['detail'])
    elif p == 'composition':
        st.merge(composition_task([(case['literal'], case['op'], case['k'])]))
    elif p == 'limit':
        limit_checks(st)
    elif p == 'unversioned':
        unversioned_checks(st)
    else:
        spacing_checks(st)


def _leaves(ast):
    if ast[0] in ('and', 'or'):
        for x in _leaves(ast[1]):
            yield x
        for x in _leaves(ast[2]):
            yield x
    else:
        yield ast
