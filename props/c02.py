"""C02 — see DESIGN.md section 5; thin wrapper over props/rt.py (format=json, oracle=own)."""
from props import rt
from props.rt import run_case  # noqa: F401  (looked up by name in pool workers)


def run(ctx):
    return rt.run_property(ctx, 'C02', 'json', 'own', __name__)


def replay(case, st):
    if 'scalar' in case or case.get('prop') == 'microsecond':
        rt.replay_scalar(case, st)
    else:
        rt.replay_case(case, st)
