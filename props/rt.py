"""Shared slot/catalogue harness for the round-trip and writer-conformance checks (C01, C02, C04, C06).

A fixed skeleton grid has 8 *slots* (4 under 2.0); every slot chooses from the value catalogue,
alternative 0 being a benign default.  A deviation is a slot holding a catalogue payload; d = 1 puts
every payload in every slot, d = 2 every pair of payloads in every pair of slots.
"""
import json

from mc.explore import Stats, HarnessError
from ref import neutral as N, observe as O, catalogue as C, refzinc, refjson

SLOTS3 = ['gmeta', 'cmeta', 'cell0', 'cell1', 'lelem', 'dval', 'ncell', 'nmeta']
SLOTS2 = ['gmeta', 'cmeta', 'cell0', 'cell1']
DEFAULT = C.E('default', ('str', 'd'))
ONE = N.num(1.0)


# tag / column / dict-key names: the default set, and sets that coincide with the words the formats use structurally
# (JSON object keys meta / cols / rows / name / ver, the id and dis tags) or are single letters
NAMESETS = [dict(g='gM_1', c='cm', col='n', k='k'), dict(g='name', c='ver', col='n', k='k'), dict(g='rows', c='meta', col='ver', k='cols'),
            dict(g='v', c='n', col='e', k='r'), dict(g='id', c='dis', col='id', k='id')]
# (a grid tag called 'ver' and a column tag called 'name' cannot be told from the version / the column's name in Haystack JSON
# itself, so they are not used; the same words at the OTHER level are ordinary tags)


def skeleton(ver, v, nm=None):
    nm = nm or NAMESETS[0]
    if ver == '2.0':
        return N.mkgrid('2.0', [(nm['g'], v['gmeta']), ('aa', N.MARKER)],
                        [(nm['col'], [(nm['c'], v['cmeta']), ('ab', N.MARKER)]), ('colB2_x', []), ('a', [('dis', ('str', 'C'))])],
                        [(v['cell0'], N.NULL, ONE), (ONE, N.NULL, v['cell1'])])
    nested = N.mkgrid('3.0', [('nm', v['nmeta'])], [('x', [])], [(v['ncell'],)])
    return N.mkgrid('3.0', [(nm['g'], v['gmeta']), ('aa', N.MARKER)],
                    [(nm['col'], [(nm['c'], v['cmeta']), ('ab', N.MARKER)]), ('colB2_x', []), ('a', [('dis', ('str', 'C'))])],
                    [(v['cell0'], ('list', (ONE, v['lelem'])), N.mkdict([(nm['k'], v['dval']), ('m', N.MARKER)])),
                     (nested, N.NULL, v['cell1'])])


def assemble(hs, ver, o, absent, verarg='str', nm=None):
    """The hszinc grid the skeleton denotes, built through the public API from hszinc values `o`."""
    nm = nm or NAMESETS[0]
    n = nm['col']
    g = hs.Grid(version=version_argument(hs, ver, verarg), metadata={}, columns=[(n, [(nm['c'], o['cmeta']), ('ab', hs.MARKER)]), ('colB2_x', []), ('a', [('dis', 'C')])])
    g.metadata[nm['g']] = o['gmeta']
    g.metadata['aa'] = hs.MARKER
    if ver == '2.0':
        r0 = {n: o['cell0'], 'colB2_x': None, 'a': 1.0}
        r1 = {n: 1.0, 'colB2_x': None, 'a': o['cell1']}
    else:
        nested = hs.Grid(version='3.0', columns=['x'] if False else [('x', [])])
        nested.metadata['nm'] = o['nmeta']
        nested.append({'x': o['ncell']})
        r0 = {n: o['cell0'], 'colB2_x': [1.0, o['lelem']], 'a': {nm['k']: o['dval'], 'm': hs.MARKER}}
        r1 = {n: nested, 'colB2_x': None, 'a': o['cell1']}
    if absent:
        del r1['colB2_x']
    g.append(r0)
    g.append(r1)
    return g


SECOND = N.mkgrid('2.0', [('second', N.MARKER)], [('p', []), ('q', [])], [(('str', 'left'), ('str', 'right'))])


def second_grid(hs):
    g = hs.Grid(version='2.0', columns=[('p', []), ('q', [])])
    g.metadata['second'] = hs.MARKER
    g.append({'p': 'left', 'q': 'right'})
    return g


def slots_for(ver):
    return SLOTS3 if ver == '3.0' else SLOTS2


def choose_case(ch, ver, cat):
    """-> (entries per slot, absent flag)"""
    ents = {}
    for s in slots_for(ver):
        ents[s] = ch.choose(s, [DEFAULT] + cat)
    absent = ch.choose('absent', [False, True])
    return ents, absent


def minimal_payloads(ents):
    return sorted((s, e.name) for s, e in ents.items() if e is not DEFAULT)


def diff_class(d):
    """Coarse class of a neutral difference for signatures: where + expected kind -> observed kind."""
    path, a, b = d
    where = 'shape'
    for key in ('meta', 'col(', 'row', 'ver', 'ncells', 'nrows', 'cols', 'names'):
        if key in path:
            where = key.strip('(')
            break
    ka = a[0] if isinstance(a, tuple) and a and isinstance(a[0], str) else type(a).__name__
    kb = b[0] if isinstance(b, tuple) and b and isinstance(b[0], str) else type(b).__name__
    return where, '%s->%s' % (ka, kb)


def exc_name(e):
    return type(e).__name__


# ---------------------------------------------------------------------------------------------------
# the engine: one execution = build grid -> dump with hszinc -> read back (own reader or the
# independent one) -> compare neutral forms

def flat_skeleton(ver, v, nm=None):
    nm = nm or NAMESETS[0]
    return N.mkgrid(ver, [(nm['g'], v['gmeta']), ('aa', N.MARKER)],
                    [(nm['col'], [(nm['c'], v['cmeta']), ('ab', N.MARKER)]), ('colB2_x', []), ('a', [('dis', ('str', 'C'))])],
                    [(v['cell0'], N.NULL, ONE), (ONE, N.NULL, v['cell1'])])


def flat_assemble(hs, ver, o, absent, verarg='str', nm=None):
    nm = nm or NAMESETS[0]
    n = nm['col']
    g = hs.Grid(version=version_argument(hs, ver, verarg), metadata={}, columns=[(n, [(nm['c'], o['cmeta']), ('ab', hs.MARKER)]), ('colB2_x', []), ('a', [('dis', 'C')])])
    g.metadata[nm['g']] = o['gmeta']
    g.metadata['aa'] = hs.MARKER
    r0 = {n: o['cell0'], 'colB2_x': None, 'a': 1.0}
    r1 = {n: 1.0, 'colB2_x': None, 'a': o['cell1']}
    if absent:
        del r1['colB2_x']
    g.append(r0)
    g.append(r1)
    return g


CATS = {}


def cat_for(ver, which):
    key = (ver, which)
    if key not in CATS:
        if which == 'full':
            CATS[key] = C.for_version(ver)
        elif which == 'reps':
            CATS[key] = C.for_version(ver, reduced=True)
        else:  # 'tiny': one payload per kind
            seen, out = set(), []
            for e in C.for_version(ver, reduced=True):
                if e.n[0] not in seen:
                    seen.add(e.n[0])
                    out.append(e)
            CATS[key] = out
    return CATS[key]


TRIMS = ['full', 'one-row', 'no-rows', 'one-col']
# how the ordered maps of the grid (metadata, columns, column metadata) reached their order:
# 'append' = keys added in final order; 'relocate' = first key deleted and re-inserted at the front,
# so the creation order of the backing storage differs from the map's order
HISTS = ['append', 'relocate', 'rows-reordered', 'overwritten', 'after-failed-dump']
# how the version was declared: a string, the library's shared constant object, or not at all (detected)
VERARGS = ['str', 'const', 'detect']


def version_argument(hs, ver, verarg):
    if verarg == 'const':
        return hs.VER_3_0 if ver == '3.0' else hs.VER_2_0
    if verarg == 'detect':
        return None
    return ver


def rehistory(hs, g):
    maps = [g.metadata, g.column] + [g.column[c] for c in list(g.column.keys())]
    for m in maps:
        keys = list(m.keys())
        if len(keys) < 2:
            continue
        v = m[keys[0]]
        del m[keys[0]]
        m.add_item(keys[0], v, index=0)
    return g


def trim_neutral(n, trim):
    _, ver, meta, cols, rows = n
    if trim == 'one-row':
        rows = rows[:1]
    elif trim == 'no-rows':
        rows = ()
    elif trim == 'one-col':
        cols = cols[:1]
        rows = tuple(r[:1] for r in rows)
    return ('grid', ver, meta, cols, rows)


def trim_grid(hs, g, trim):
    if trim == 'one-row':
        del g[1:]
    elif trim == 'no-rows':
        del g[:]
    elif trim == 'one-col':
        first = list(g.column.keys())[0]
        for name in list(g.column.keys())[1:]:
            del g.column[name]
        for r in g:
            for k in list(r.keys()):
                if k != first:
                    del r[k]
    return g


def execute(hs, prop, fmt, oracle, ver, shape, multi, form, ents, absent, trim='full', hist='append', verarg='str', names=0):
    """One case.  -> (outcome summary, list of (symptom, sig-extra, detail))"""
    slots = SLOTS3 if (ver == '3.0' and shape == 'full') else SLOTS2
    mode = hs.MODE_ZINC if fmt == 'zinc' else hs.MODE_JSON
    nvals = {s: ents[s].n for s in slots}
    nm = NAMESETS[names]
    expected = [trim_neutral(skeleton(ver, nvals, nm) if shape == 'full' else flat_skeleton(ver, nvals, nm), trim)]
    if verarg == 'detect':
        # an undeclared version is 2.0 unless the grid holds a kind that exists only from 3.0 on (C10)
        v3 = (ver == '3.0' and shape == 'full') or any(ents[s].minver == '3.0' or N.needs_v3(ents[s].n) for s in slots)
        expected[0] = ('grid', '3.0' if v3 else '2.0') + expected[0][2:]
    ever = expected[0][1]
    fails = []
    try:
        objs = {s: O.build(ents[s].n, hs, ents[s].hint) for s in slots}
        first = dict(objs, gmeta='placeholder', cmeta='placeholder') if hist == 'overwritten' else objs
        g = assemble(hs, ver, first, absent, verarg, nm) if shape == 'full' else flat_assemble(hs, ver, first, absent, verarg, nm)
        if hist == 'relocate':
            g = rehistory(hs, g)
        elif hist == 'rows-reordered':
            # every row dict holds its members in the REVERSE of the column order (a row is a dict: member order means nothing)
            for i in range(len(g)):
                r = g[i]
                g[i] = dict((k, r[k]) for k in reversed(list(r.keys())))
        elif hist == 'after-failed-dump':
            # an earlier dump of this very grid failed (a value no writer knows sat in a nested list); the caller repaired the grid
            class _Unknown(object):
                pass
            bad = [1.0, [_Unknown()]] if ver == '3.0' else _Unknown()
            g[0]['a'], keep = bad, g[0].get('a')
            for m_ in (hs.MODE_ZINC, hs.MODE_JSON):
                try:
                    hs.dump(g, mode=m_)
                except Exception:  # noqa
                    pass
            g[0]['a'] = keep
        elif hist == 'overwritten':
            # the two metadata payloads were first something else (a plain string) and are assigned in place afterwards
            g.metadata[nm['g']] = objs['gmeta']
            g.column[nm['col']][nm['c']] = objs['cmeta']
        g = trim_grid(hs, g, trim)
    except Exception as e:  # noqa
        return 'build-raised', [('grid-construction-raised', {'exc': exc_name(e)}, {'exc': repr(e)})]
    arg = g
    if multi == 2:
        arg = [g, second_grid(hs)]
        expected.append(SECOND)
    elif multi == 4:                      # a list holding ONE grid is still a list
        arg = [g]
    elif multi == 3:                      # the payload grid is the SECOND grid of the document
        arg = [second_grid(hs), g]
        expected.insert(0, SECOND)
    try:
        text = hs.dump(arg, mode=mode)
    except Exception as e:  # noqa
        if isinstance(e, ValueError) and any(x[0] == 'dt' and x[3] is None for s in slots for x in N.walk(ents[s].n)):
            # a fixed-offset date-time for which no mapped zone has that offset: the writer may refuse (C17)
            return 'skip:no-zone-for-fixed-offset', []
        return 'dump-raised', [('dump-raised', {'exc': exc_name(e)}, {'exc': repr(e)})]
    detail = {'dumped': text if len(text) < 1500 else text[:1500] + '...'}
    if fmt == 'json':
        # the version-appropriate Remove spelling is part of both JSON properties (C02 and C06)
        try:
            jo = json.loads(text)
            first = (jo[1] if (multi == 3 and len(jo) > 1) else jo[0]) if isinstance(jo, list) else jo
            bad = '-:' if ever == '2.0' else 'x:'
            if _has_value(first, bad, top=True):
                fails.append(('remove-spelled-for-other-version', {'spelling': bad}, detail))
        except ValueError:
            pass
    if oracle == 'own':
        try:
            if fmt == 'json' and form == 'bytes':
                src = text.encode('utf-8')
            elif fmt == 'json' and form == 'object':
                src = json.loads(text)
            elif fmt == 'zinc' and form == 'bytes':
                src = text.encode('utf-8')
            else:
                src = text
            back = hs.parse(src, mode=mode, single=(multi == 1))
            if multi == 4 and fmt == 'json' and isinstance(src, str) and not src.lstrip().startswith('['):
                fails.append(('json-top-level-shape', {}, detail))
        except Exception as e:  # noqa
            detail['exc'] = repr(e)[:600]
            return 'reparse-raised', [('reparse-raised', {'exc': exc_name(e)}, detail)]
        grids = [back] if multi == 1 else back
        if not isinstance(grids, list) or any(not isinstance(x, hs.Grid) for x in grids):
            return 'reparse-shape', [('reparse-wrong-result-shape', {}, detail)]
        try:
            observed = [O.observe_grid(x, hs) for x in grids]
        except O.Unobservable as e:
            detail['exc'] = repr(e)
            return 'unobservable', [('reparse-yields-unknown-value-type', {}, detail)]
    else:
        try:
            if fmt == 'zinc':
                observed = refzinc.read(text)
            else:
                observed = refjson.read(json.loads(text))
                jo = json.loads(text)
                if (multi >= 2) != isinstance(jo, list) or (multi == 4 and len(jo) != 1):
                    fails.append(('json-top-level-shape', {}, detail))
        except (refzinc.RefZincError, refjson.RefJsonError, ValueError) as e:
            detail['reference_reader'] = str(e)[:400]
            return 'ref-rejects', [('writer-output-rejected-by-reference-reader', {'why': _why(e)}, detail)]
    if len(observed) != len(expected):
        detail['ngrids'] = len(observed)
        return 'grid-count', [('grid-count-differs', {'expected': len(expected), 'observed': len(observed)}, detail)]
    cmpmode = 'zinc' if fmt == 'zinc' else 'json'
    for i, (e, o) in enumerate(zip(expected, observed)):
        d = N.same(e, o, cmpmode)
        if d:
            where, kinds = diff_class(d)
            detail2 = dict(detail, first_difference=N.show(d, 500))
            fails.append(('roundtrip-differs' if oracle == 'own' else 'reference-reader-recovers-other-grid',
                          {'where': where, 'kinds': kinds, 'grid': i}, detail2))
            break
    return ('ok' if not fails else 'differs'), fails


def _why(e):
    s = str(e)
    s = s.split(' at ')[0]
    return s[:60]


def _has_value(o, val, top=False):
    if isinstance(o, dict):
        if 'meta' in o and 'cols' in o and not top:
            return False   # a nested grid carries its own version
        return any(_has_value(v, val) for v in o.values())
    if isinstance(o, list):
        return any(_has_value(v, val) for v in o)
    return o == val


def run_case(ch, st, prop, fmt, oracle, ver, shape, multi, form, which, pin=None):
    import hszinc as hs
    pin = dict(pin or ())
    cat = cat_for(ver, which)
    slots = SLOTS3 if (ver == '3.0' and shape == 'full') else SLOTS2
    ents = {s: ch.choose(s, [DEFAULT] + cat) for s in slots}
    absent = ch.choose('absent', [False, True])
    trim = ch.choose('trim', TRIMS)
    hist = ch.choose('hist', HISTS)
    verarg = pin['verarg'] if 'verarg' in pin else ch.choose('verarg', VERARGS)
    names = ch.choose('names', list(range(len(NAMESETS))))
    if trim != 'full' and absent:
        absent = False
    outcome, fails = execute(hs, prop, fmt, oracle, ver, shape, multi, form, ents, absent, trim, hist, verarg, names)
    if outcome.startswith('skip:'):
        st.skip(outcome[5:])
    devs = [(s, ents[s]) for s in slots if ents[s] is not DEFAULT]
    names_ = tuple((s, e.name) for s, e in devs)
    st.case((ver, shape, multi, form, names_, absent, trim, hist, verarg, names), nontrivial=bool(devs), outcome=(outcome, tuple(sorted(set(e.n[0] for _, e in devs)))),
            sample={'ver': ver, 'skeleton': shape, 'grids': multi, 'input_form': form, 'slots': dict(names_), 'absent_key': absent, 'outcome': outcome,
                    'map_history': hist, 'version_declared_by': verarg, 'names': NAMESETS[names]})
    if not fails:
        return
    # minimise: a failure with several deviations that already occurs with one of them alone is the
    # smaller case's finding (explored too, since exploration is downward closed)
    base_ver = pin.get('verarg', 'str')
    ndev = len(devs) + (1 if absent else 0) + (1 if trim != 'full' else 0) + (1 if hist != 'append' else 0) + (1 if verarg != base_ver else 0) + (1 if names else 0)
    if ndev >= 2:
        singles = []
        none = {k: DEFAULT for k in slots}
        for s, e in devs:
            singles.append(({k: (e if k == s else DEFAULT) for k in slots}, False, 'full', 'append', base_ver, 0))
        if absent:
            singles.append((none, True, 'full', 'append', base_ver, 0))
        if trim != 'full':
            singles.append((none, False, trim, 'append', base_ver, 0))
        if hist != 'append':
            singles.append((none, False, 'full', hist, base_ver, 0))
        if verarg != base_ver:
            singles.append((none, False, 'full', 'append', verarg, 0))
        if names:
            singles.append((none, False, 'full', 'append', base_ver, names))
        for sents, sabs, strim, shist, sver, snames in singles:
            _, sf = execute(hs, prop, fmt, oracle, ver, shape, multi, form, sents, sabs, strim, shist, sver, snames)
            if sf and sf[0][0] == fails[0][0]:
                st.count('failures_subsumed_by_smaller_case')
                return
    for symptom, extra, detail in fails:
        sig = {'fmt': fmt, 'ver': ver, 'trim': trim, 'hist': hist, 'verarg': verarg, 'names': names, 'payloads': '|'.join(sorted(e.name for _, e in devs)) or '-',
               'kinds': '|'.join(sorted(e.n[0] for _, e in devs)) or '-'}
        sig.update({k: v for k, v in extra.items() if k != 'grid'})
        st.fail(symptom, sig,
                {'prop': prop, 'fmt': fmt, 'oracle': oracle, 'ver': ver, 'shape': shape, 'multi': multi, 'form': form,
                 'slots': {s: e.name for s, e in devs}, 'absent': absent, 'trim': trim, 'hist': hist, 'verarg': verarg, 'names': names},
                dict(detail, slots={s: e.name for s, e in devs}))


def replay_case(case, st):
    import hszinc as hs
    slots = SLOTS3 if (case['ver'] == '3.0' and case['shape'] == 'full') else SLOTS2
    ents = {s: C.BY_NAME[case['slots'][s]] if s in case['slots'] else DEFAULT for s in slots}
    outcome, fails = execute(hs, case['prop'], case['fmt'], case['oracle'], case['ver'], case['shape'], case['multi'],
                             case['form'], ents, case['absent'], case.get('trim', 'full'), case.get('hist', 'append'), case.get('verarg', 'str'), case.get('names', 0))
    for symptom, extra, detail in fails:
        st.fail(symptom, dict(extra), case, detail)


def scalar_space(st, fmt, oracle):
    """Scalar API: parse_scalar(dump_scalar(v)) for every catalogue value x version (complete)."""
    import hszinc as hs
    mode = hs.MODE_ZINC if fmt == 'zinc' else hs.MODE_JSON
    for ver in ('2.0', '3.0'):
        for e in C.for_version(ver):
            st.count('executions')
            st.count('states')
            st.count('transitions')
            case = {'prop': 'scalar', 'fmt': fmt, 'oracle': oracle, 'ver': ver, 'scalar': e.name}
            sig = {'fmt': fmt, 'ver': ver, 'payloads': e.name, 'kinds': e.n[0], 'api': 'scalar'}
            try:
                text = hs.dump_scalar(O.build(e.n, hs, e.hint), mode=mode, version=hs.Version(ver))
            except Exception as ex:  # noqa
                if isinstance(ex, ValueError) and e.n[0] == 'dt' and e.n[3] is None:
                    st.skip('no mapped zone has this fixed offset: writer may refuse (C17)')
                    continue
                st.case(('scalar', fmt, ver, e.name), outcome='dump-raised')
                st.fail('dump-raised', dict(sig, exc=exc_name(ex)), case, {'exc': repr(ex)})
                continue
            try:
                if oracle == 'own':
                    got = O.observe(hs.parse_scalar(text, mode=mode, version=ver), hs)
                elif fmt == 'zinc':
                    got = refzinc.read_scalar(text, ver)
                else:
                    got = refjson.read_value(text, ver == '3.0')   # the JSON scalar API exchanges decoded values
            except Exception as ex:  # noqa
                st.case(('scalar', fmt, ver, e.name), outcome='reparse-raised')
                st.fail('reparse-raised' if oracle == 'own' else 'writer-output-rejected-by-reference-reader',
                        dict(sig, exc=exc_name(ex)), case, {'dumped': text, 'exc': repr(ex)[:400]})
                continue
            d = N.same(e.n, got, fmt)
            st.case(('scalar', fmt, ver, e.name), outcome=('scalar', d is None, e.n[0]))
            if d:
                where, kinds = diff_class(d)
                st.fail('roundtrip-differs' if oracle == 'own' else 'reference-reader-recovers-other-grid',
                        dict(sig, kinds2=kinds), case, {'dumped': text, 'first_difference': N.show(d)})


def microsecond_task(fmt, oracle, values):
    """Times and date-times with every listed microsecond value through dump_scalar / the reader (complete sub-space)."""
    import datetime
    import hszinc as hs
    import pytz
    st = Stats()
    mode = hs.MODE_ZINC if fmt == 'zinc' else hs.MODE_JSON
    tz = pytz.timezone('Europe/London')
    for us in values:
        t = datetime.time(7, 51, 43, us)
        dt = tz.localize(datetime.datetime(2020, 6, 15, 7, 51, 43, us))
        for kind, val, want in (('time', t, ('time', 7, 51, 43, us)), ('dt', dt, None)):
            st.count('executions')
            case = {'prop': 'microsecond', 'fmt': fmt, 'oracle': oracle, 'kind': kind, 'us': us}
            sig = {'fmt': fmt, 'api': 'scalar', 'kinds': kind, 'payloads': 'microsecond'}
            try:
                text = hs.dump_scalar(val, mode=mode)
                if oracle == 'own':
                    got = O.observe(hs.parse_scalar(text, mode=mode), hs)
                elif fmt == 'zinc':
                    got = refzinc.read_scalar(text, '3.0')
                else:
                    got = refjson.read_value(text, True)
            except Exception as ex:  # noqa
                st.fail('reparse-raised' if oracle == 'own' else 'writer-output-rejected-by-reference-reader', dict(sig, exc=exc_name(ex)), case, {'exc': repr(ex)[:300]})
                continue
            ok = (got == want) if kind == 'time' else (got[0] == 'dt' and got[1] % 1000000 == us and got[1] == (dt - O.EPOCH) // O.US)
            if not ok:
                st.fail('roundtrip-differs' if oracle == 'own' else 'reference-reader-recovers-other-grid', dict(sig, kinds2='%s->%s' % (kind, got[0])), case,
                        {'dumped': text, 'observed': N.show(got), 'microsecond': us})
        st.inputs.add(h_us(fmt, us))
    st.nontrivial |= st.inputs
    st.c['states'] = st.c.get('states', 0) + len(values)
    st.c['transitions'] = st.c.get('transitions', 0) + len(values)
    return st


def h_us(fmt, us):
    return hash(('us', fmt, us)) & 0xffffffffffff


def microsecond_values(quick, fmt):
    from ref import hazards
    if quick:
        return sorted(set(list(range(0, 2000)) + list(range(0, 1000000, 97 if fmt == 'json' else 331)) + [999999, 129649, 15700]
                          + hazards.microsecond_alphabet(250)))
    return sorted(set(list(range(0, 1000000, 1 if fmt == 'json' else 3)) + hazards.microsecond_hazards()))


def replay_scalar(case, st):
    if case.get('prop') == 'microsecond':
        st.merge(microsecond_task(case['fmt'], case['oracle'], [case['us']]))
        return
    sub = Stats()
    scalar_space(sub, case['fmt'], case['oracle'])
    for f in sub.failures:
        if f['case'].get('scalar') == case['scalar'] and f['case'].get('ver') == case['ver']:
            st.fail(f['symptom'], f['sig'], f['case'], f['detail'])


def run_property(ctx, prop, fmt, oracle, module_name):
    from mc.explore import explore
    from ref import selftest
    selftest.quick_selftest()
    st = Stats()
    forms = ['text']
    if oracle == 'own':
        forms = ['text', 'bytes'] if fmt == 'zinc' else ['text', 'bytes', 'object']
    if ctx.quick:
        plan = [('3.0', 'full', 1, 'text', 'full', 1), ('2.0', 'flat', 1, 'text', 'full', 1),
                ('3.0', 'flat', 1, 'text', 'reps', 2), ('3.0', 'full', 1, 'text', 'tiny', 2),
                ('2.0', 'flat', 2, forms[-1], 'reps', 1), ('3.0', 'full', 2, forms[-1], 'reps', 1), ('3.0', 'flat', 3, 'text', 'reps', 1), ('2.0', 'flat', 3, forms[-1], 'tiny', 2), ('3.0', 'flat', 4, 'text', 'tiny', 1), ('2.0', 'flat', 4, forms[-1], 'tiny', 1)]
        if fmt == 'json':
            plan += [('3.0', 'full', 1, f, 'full', 1) for f in forms[1:]]
            plan += [('2.0', 'flat', 1, 'text', 'reps', 2), ('3.0', 'full', 1, 'text', 'reps', 2)]
    else:
        plan = [('3.0', 'full', 1, 'text', 'full', 1), ('2.0', 'flat', 1, 'text', 'full', 2),
                ('3.0', 'flat', 1, 'text', 'full', 2), ('3.0', 'full', 1, 'text', 'reps', 2),
                ('2.0', 'flat', 2, forms[-1], 'full', 1), ('3.0', 'full', 2, forms[-1], 'full', 1), ('3.0', 'full', 3, 'text', 'full', 1), ('2.0', 'flat', 3, forms[-1], 'reps', 2), ('3.0', 'full', 4, 'text', 'reps', 1), ('2.0', 'flat', 4, forms[-1], 'reps', 1)]
        plan += [('3.0', 'full', 1, f, 'full', 1) for f in forms[1:]]
        if fmt == 'json':
            plan += [('3.0', 'full', 1, 'text', 'full', 2)]
    # the same with the version NOT declared (detected from the content): an undeclared grid is the common way to build one
    plan = [p + (None,) for p in plan] + [('3.0', 'flat', 1, 'text', 'tiny' if ctx.quick else 'reps', 2, (('verarg', 'detect'),)),
                                          ('2.0', 'flat', 1, 'text', 'tiny' if ctx.quick else 'reps', 2, (('verarg', 'detect'),))]
    bounds = []
    for ver, shape, multi, form, which, d, pin in plan:
        before = st.c.get('executions', 0)
        explore(module_name, 'run_case', d, ctx.seed, ctx.jobs, st, args=(prop, fmt, oracle, ver, shape, multi, form, which, pin))
        bounds.append({'ver': ver, 'skeleton': shape, 'grids': multi, 'input_form': form, 'catalogue': which,
                       'payloads': len(cat_for(ver, which)), 'max_deviations': d, 'pinned': dict(pin or ()),
                       'executions': st.c.get('executions', 0) - before})
    scalar_space(st, fmt, oracle)
    from mc.explore import pmap, chunks
    us_values = microsecond_values(ctx.quick, fmt)
    for part in pmap(microsecond_task, [(fmt, oracle, c) for c in chunks(us_values, ctx.jobs * 2)], ctx.jobs):
        st.merge(part)
    bounds.append({'microsecond_values_through_scalar_api': len(us_values)})
    return {
        'stats': st, 'exhaustive': True,
        'rule': 'deviation-bounded choice-tree exploration: each sub-space enumerates ALL assignments of catalogue payloads to the '
                'skeleton slots with at most max_deviations non-default slots (+ absent-key flag), each exactly once; plus every '
                'catalogue value through the scalar API under both versions; distinct = distinct (version, skeleton, grids, form, '
                'slot assignment); non-trivial = at least one slot holds a catalogue payload',
        'coverage': {'bounds': {'subspaces': bounds, 'catalogue_entries': len(C.V), 'slots_full': SLOTS3, 'slots_flat': SLOTS2},
                     'exhaustive_note': 'every sub-space listed under bounds was enumerated completely up to its deviation bound'},
    }
