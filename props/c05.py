# -*- coding: utf-8 -*-
"""C05 — the JSON reader decodes every well-formed Haystack-JSON grid correctly.

Driver A, grammar-directed: ref/refjson.py renders base grids with a choice at every value (number
as n:1 / n:1.0 / n:1e0 / raw JSON number, both Remove spellings, times with or without seconds and
fraction, date-times with Z or +00:00, strings bare or s:-prefixed, rows missing / null / [], rows
omitting null columns) x input form {str, bytes, dict / list of dicts} x single flag x 1-3 grids.
"""
import copy
import json

from mc.explore import Stats, explore, HarnessError, Ch
from ref import neutral as N, observe as O, refjson
from props import c03

ONE = N.num(1.0)
MK = N.MARKER


def base_grids():
    B = list(c03.BASE)
    # JSON-specific payloads: bare strings that look like JSON, prefix look-alikes, removes, times without seconds
    B.append(N.mkgrid('3.0', [('s', ('str', '[x]'))], [('a', []), ('b', [])],
                      [(('list', (('str', '[x]'), ('str', '"q"'), ('str', '{y}'))), N.mkdict([('k', ('str', '[1]')), ('j', ('str', 'plain'))])),
                       (('str', '{"a":1}'), ('str', '"x"')), (N.REMOVE, ('time', 12, 34, 0, 0))]))
    B.append(N.mkgrid('2.0', [('r', N.REMOVE)], [('a', []), ('b', [])],
                      [(('str', 'n:1'), ('str', 'a:b')), (N.REMOVE, ('time', 1, 2, 0, 0)), (('str', 'x'), ('uri', 'u:v')), (('ref', 'a', 'x y'), ('bin', 'text/plain'))]))
    # text that CONTAINS another kind's spelling: after a line break, or further in (prefix matching must be anchored at the start)
    B.append(N.mkgrid('2.0', [('m', ('str', 'see\nd:2020-02-29'))], [('a', [('cm', ('str', 'note\nm:'))]), ('b', [])],
                      [(('str', u'setpoints\nn:21.5 \xb0C'), ('str', 'menu:lunch')), (('str', 'Web: http://h/p'), ('str', 'loc:1.5,2.5')),
                       (('str', 'x\nt:2020-01-01T00:00:00Z UTC'), ('str', 'a\nh:12:00:00')), (('str', 'q r:abc'), ('uri', 'x\nn:5')),
                       (('bin', 'text/plain; menu:1'), ('str', 'k\nz:')), (('str', 'C(1,2)\nc:1.0,2.0'), ('ref', 'a', 'd\nn:1'))]))
    # every text-like catalogue payload (backslashes before URI delimiters, UNC paths, look-alikes ...) in a cell
    from ref import catalogue as CAT
    for kind in ('uri', 'str', 'ref', 'bin', 'xstr'):
        vals = [e.n for e in CAT.for_version('3.0') if e.n[0] == kind]
        vals += {'uri': [('uri', '\\\\server\\share'), ('uri', 'http://h/a\\:b\\/c\\?d'), ('uri', 'a\\"b\\$c')], 'str': [], 'ref': [], 'bin': [], 'xstr': []}[kind]
        for i in range(0, len(vals), 12):
            B.append(N.mkgrid('2.0' if kind == 'bin' else '3.0', [], [('v', [])], [(v,) for v in vals[i:i + 12]]))   # Bin is a 2.0 kind
    # the same nested grid / dict / list value in several cells (a pre-decoded input may share one object between them)
    inner = N.mkgrid('3.0', [('im', ('str', 'in'))], [('x', [])], [(ONE,), (N.NA,)])
    dd = N.mkdict([('k', ('list', (ONE, ('str', 'v')))), ('m', MK)])
    B.append(N.mkgrid('3.0', [('g', inner)], [('a', [('cm', dd)]), ('b', [])],
                      [(inner, inner), (dd, ('list', (inner, dd, inner))), (('list', (ONE, ('str', 'v'))), ('list', (ONE, ('str', 'v'))))]))
    return B


def share_equal_subobjects(obj, pool=None):
    """Rebuild a decoded JSON value so that equal dicts/lists are ONE Python object (what a caller who builds the
    structure by hand may well pass in)."""
    pool = {} if pool is None else pool
    if isinstance(obj, dict):
        new = {k: share_equal_subobjects(v, pool) for k, v in obj.items()}
    elif isinstance(obj, list):
        new = [share_equal_subobjects(v, pool) for v in obj]
    else:
        return obj
    key = json.dumps(new, sort_keys=True)
    return pool.setdefault(key, new)


BASE = base_grids()
SMALL = c03.SMALL


def run_case(ch, st, bi, _inner=False):
    if _inner or len(ch.ov) < 2:
        return _run_case(ch, st, bi)
    tmp = Stats()
    _run_case(ch, tmp, bi)
    if tmp.failures:
        sym = tmp.failures[0]['symptom']
        for label, alt in ch.ov.items():
            sub, sst = Ch({label: alt}), Stats()
            try:
                _run_case(sub, sst, bi)
                sub.check_used()
            except HarnessError:
                continue
            if any(f['symptom'] == sym for f in sst.failures):
                tmp.failures, tmp.nfail = [], 0
                tmp.count('failures_subsumed_by_smaller_case')
                break
    st.merge(tmp)


def _run_case(ch, st, bi):
    import hszinc as hs
    g = BASE[bi]
    ngrids = ch.choose('ngrids', [1, 2, 3])
    grids = [g, SMALL, g][:ngrids]
    array = True if ngrids > 1 else ch.choose('array', [False, True])
    obj = refjson.write(grids, ch.choose, array=array)
    # JSON text with non-ASCII characters written raw (ensure_ascii off), so that an encoding other than UTF-8 matters
    raw = json.dumps(obj, ensure_ascii=False)
    forms = ['str', 'bytes', 'object', 'object-shared']
    for enc in ('utf-8', 'utf-16', 'latin-1', 'cp1252'):         # (a lone surrogate has no encoded form at all)
        try:
            raw.encode(enc)
            forms.append('bytes-raw-' + enc)
        except UnicodeError:
            pass
    form = ch.choose('form', forms)
    single = ch.choose('single', [True, False])
    text = json.dumps(obj)
    kw = {}
    if form == 'str':
        src = text
    elif form.startswith('bytes-raw-'):
        enc = form[len('bytes-raw-'):]
        src = raw.encode(enc)
        if enc != 'utf-8':
            kw = {'charset': enc}
    elif form == 'bytes':
        src = text.encode('utf-8')
    elif form == 'object':
        src = json.loads(text)
    else:
        src = share_equal_subobjects(json.loads(text))
    snapshot = json.dumps(src, sort_keys=True) if form.startswith('object') else None
    devs = sorted(ch.used)
    classes = sorted(set(c03._label_class(l) for l in devs))
    sig = {'spellings': '|'.join(classes) or '-'}
    case = {'base': bi, 'ov': dict(ch.ov)}
    key = (bi, tuple(sorted(ch.ov.items())))
    try:
        got = hs.parse(src, mode=hs.MODE_JSON, single=single, **kw)
    except Exception as e:  # noqa
        st.case(key, nontrivial=bool(devs), outcome=('raise', type(e).__name__, tuple(classes)))
        st.fail('well-formed-json-rejected', dict(sig, exc=type(e).__name__), case, {'json': text[:1200], 'form': form, 'single': single, 'exc': repr(e)[:300]})
        return
    ok = True
    if form.startswith('object') and json.dumps(src, sort_keys=True) != snapshot:
        st.fail('caller-object-modified', sig, case, {'json': text[:1200]})
        ok = False
    got_list = [got] if single else got
    want = grids[:1] if single else grids
    if not isinstance(got_list, list) or len(got_list) != len(want):
        st.fail('grid-count-differs', dict(sig, expected=len(want)), case, {'json': text[:1200], 'single': single})
        ok = False
    else:
        for w, o in zip(want, got_list):
            try:
                obs = O.observe_grid(o, hs)
            except Exception as e:  # noqa
                st.fail('parse-result-unobservable', sig, case, {'json': text[:1200], 'exc': repr(e)})
                ok = False
                break
            d = N.same(w, obs, 'exact')
            if d:
                from props.rt import diff_class
                where, kinds = diff_class(d)
                st.fail('json-decoded-to-other-grid', dict(sig, where=where, kinds=kinds), case,
                        {'json': text[:1200], 'form': form, 'single': single, 'first_difference': N.show(d, 400)})
                ok = False
                break
    st.case(key, nontrivial=bool(devs), outcome=(ok, tuple(classes)),
            sample={'base_grid': bi, 'deviations': devs, 'json': text[:200]})


def fraction_task(fracs):
    """Every listed second-fraction spelling through the JSON time and date-time decoders."""
    import hszinc as hs
    st = Stats()
    for f in fracs:
        us = int(f[:6].ljust(6, '0'))
        for kind, text, want in (('time', 'h:07:51:43.' + f, ('time', 7, 51, 43, us)),
                                 ('dt', 't:2020-06-15T07:51:43.' + f + 'Z UTC', None)):
            st.count('executions')
            try:
                got = O.observe(hs.parse_scalar(text, mode=hs.MODE_JSON), hs)
            except Exception as e:  # noqa
                st.fail('well-formed-json-rejected', {'spellings': 'fraction', 'exc': type(e).__name__}, {'fraction': f, 'kind': kind}, {'text': text})
                continue
            ok = (got == want) if kind == 'time' else (got[0] == 'dt' and got[1] % 1000000 == us)
            if not ok:
                st.fail('json-decoded-to-other-grid', {'spellings': 'fraction', 'kinds': kind, 'digits': len(f)}, {'fraction': f, 'kind': kind},
                        {'text': text, 'expected_microseconds': us, 'observed': N.show(got)})
        st.inputs.add(hash(('frac', f)) & 0xffffffffffff)
    st.nontrivial |= st.inputs
    st.outcomes.add(hash(('frac', bool(st.failures))))
    st.c['states'] = st.c.get('states', 0) + len(fracs)
    st.c['transitions'] = st.c.get('transitions', 0) + len(fracs)
    if fracs:
        st.samples.append({'time_fraction': fracs[0]})
    return st


def fractions(quick):
    out = []
    for n in (1, 2, 3, 4):
        out += [str(i).zfill(n) for i in range(10 ** n)]
    step = 97 if quick else 1
    out += [str(i).zfill(6) for i in range(0, 10 ** 6, step)]
    out += [str(i).zfill(5) for i in range(0, 10 ** 5, 13 if quick else 1)]
    return out


def zone_name_task(names):
    """A date-time whose zone NAME this host cannot map (an official Haystack name without a pytz counterpart here, or an invented
    one) is still a well-formed value: it decodes to the instant and offset that are written."""
    import datetime
    import hszinc as hs
    st = Stats()
    want = datetime.datetime(2020, 6, 1, 17, 0, 0, tzinfo=datetime.timezone.utc)
    for name in names:
        text = 't:2020-06-01T12:00:00-05:00 ' + name
        for where, doc in (('cell', {'meta': {'ver': '2.0'}, 'cols': [{'name': 'a'}], 'rows': [{'a': text}]}),
                           ('grid-meta', {'meta': {'ver': '3.0', 'ts': text}, 'cols': [{'name': 'a'}], 'rows': []}),
                           ('list', {'meta': {'ver': '3.0'}, 'cols': [{'name': 'a'}], 'rows': [{'a': [text]}]})):
            for form in ('object', 'str'):
                st.count('executions')
                case = {'zone_name': name, 'where': where, 'form': form}
                try:
                    g = hs.parse(doc if form == 'object' else json.dumps(doc), mode=hs.MODE_JSON)
                    v = g[0]['a'] if where == 'cell' else (g.metadata['ts'] if where == 'grid-meta' else g[0]['a'][0])
                except Exception as e:  # noqa
                    st.fail('well-formed-json-rejected', {'spellings': 'zone-name-unknown-here', 'exc': type(e).__name__}, case, {'text': text, 'exc': repr(e)[:200]})
                    continue
                ok = isinstance(v, datetime.datetime) and v.tzinfo is not None and v == want and v.utcoffset() == datetime.timedelta(hours=-5)
                st.case(('zone-name', name, where, form), outcome=('zone-name', ok))
                if not ok:
                    st.fail('json-decoded-to-other-grid', {'spellings': 'zone-name-unknown-here', 'where': where}, case, {'text': text, 'observed': repr(v)[:200]})
    return st


def run(ctx):
    from ref import selftest
    from mc.explore import pmap, chunks
    selftest.quick_selftest()
    st = Stats()
    from hszinc import zoneinfo as _zi
    unmapped = sorted(set(_zi.HAYSTACK_TIMEZONES) - set(_zi.get_tz_map())) + ['Atlantis', 'Not_A_Zone', 'X']
    for part in pmap(zone_name_task, [(c,) for c in chunks(unmapped, ctx.jobs)], ctx.jobs):
        st.merge(part)
    fr = fractions(ctx.quick)
    for part in pmap(fraction_task, [(c,) for c in chunks(fr, ctx.jobs * 2)], ctx.jobs):
        st.merge(part)
    bounds = [{'second_fractions': len(fr), 'complete': not ctx.quick}]
    for bi in range(len(BASE)):
        d = 3 if bi < 12 else 1
        before = st.c.get('executions', 0)
        explore(__name__, 'run_case', d, ctx.seed, ctx.jobs, st, args=(bi,))
        bounds.append({'base_grid': bi, 'max_deviations': d, 'documents': st.c.get('executions', 0) - before})
    return {
        'stats': st, 'exhaustive': True,
        'rule': 'every JSON document the independent writer can produce for each base grid with at most max_deviations non-canonical choices '
                '(value spellings, omitted null cells, rows missing/null, array vs object, input form, single flag, number of grids); distinct = '
                'distinct override set; non-trivial = at least one non-canonical choice',
        'coverage': {'bounds': {'base_grids': len(BASE), 'subspaces': bounds}},
        'assumptions': ['ref/refjson.py writer emits only forms DESIGN.md Appendix B marks MUST-accept'],
    }


def replay(case, st):
    if 'zone_name' in case:
        sub = zone_name_task([case['zone_name']])
        for f in sub.failures:
            if f['case'] == case:
                st.fail(f['symptom'], f['sig'], f['case'], f['detail'])
        return
    ch = Ch({k: v for k, v in case['ov'].items()})
    _run_case(ch, st, case['base'])
    ch.check_used()
