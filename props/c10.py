"""C10 — version gating: a pre-3.0 grid never carries 3.0-only data, in memory or on the wire.

Driver B: BFS over histories of every entry path (constructor, metadata, column metadata, rows) x
value kind x declared version on a real Grid, with the gating invariant evaluated after every step
and both writers run on every reached state; plus the complete agreement matrix
(7 versions x 7 kinds x 5 deciders: Grid, ZINC writer, JSON writer, ZINC reader, JSON reader).
"""
import json
import re

from mc.explore import Stats, HarnessError, Product
from mc import histories as H, modstate
from ref import refversion, refzinc, refjson, neutral as N

VERSIONS = ['none', '2.0', '3.0', '2.5', '3.0.0', '1.0', '4.0']
# 'ordered-dict' and 'list-subclass': instances of SUBCLASSES of the 3.0-only container kinds (what json.load(object_pairs_hook=...),
# collections and many frameworks hand over)
KINDS = ['plain', 'na', 'list', 'dict', 'grid', 'xstr', 'list-na', 'ordered-dict', 'list-subclass']
V3KINDS = ['na', 'list', 'dict', 'grid', 'xstr', 'list-na', 'ordered-dict', 'list-subclass']


class _ListSubclass(list):
    pass

NEUTRAL = {'plain': ('str', 'plain'), 'na': N.NA, 'list': ('list', (N.num(1.0),)), 'dict': N.mkdict([('a', N.num(1.0))]),
           'grid': N.mkgrid('3.0', [], [('x', [])], [(N.num(1.0),)]), 'xstr': ('xstr', 'hex', b'\x00'),
           'list-na': ('list', (N.NA,))}
NEUTRAL['ordered-dict'] = NEUTRAL['dict']
NEUTRAL['list-subclass'] = NEUTRAL['list']


def vclass(v):
    if v == 'none':
        return 'not-given'
    if v in ('2.0', '3.0'):
        return 'official-' + v
    c2, c3 = refversion.cmp(v, '2.0'), refversion.cmp(v, '3.0')
    if c3 == 0 or c2 == 0:
        return 'padded-official'
    if c2 < 0:
        return 'below-2.0'
    if c3 < 0:
        return 'between-2.0-and-3.0'
    return 'above-3.0'


def pre3(v):
    return v != 'none' and refversion.cmp(v, '3.0') < 0


def mkval(hs, kind):
    if kind == 'plain':
        return 'plain'
    if kind == 'na':
        return hs.NA
    if kind == 'list':
        return [1.0]
    if kind == 'dict':
        return {'a': 1.0}
    if kind == 'grid':
        g = hs.Grid(version='3.0', columns=[('x', [])])
        g.append({'x': 1.0})
        return g
    if kind == 'xstr':
        return hs.XStr('hex', '00')
    if kind == 'list-na':
        return [hs.NA]
    if kind == 'ordered-dict':
        import collections
        return collections.OrderedDict([('a', 1.0)])
    if kind == 'list-subclass':
        return _ListSubclass([1.0])
    raise HarnessError(kind)


def is_v3(hs, v):
    return v is hs.NA or isinstance(v, (list, dict, hs.Grid, hs.XStr))


def reachable_v3(hs, g):
    places = []
    for k, v in g.metadata.items():
        if is_v3(hs, v):
            places.append('meta.' + k)
    for c, m in g.column.items():
        for k, v in m.items():
            if is_v3(hs, v):
                places.append('col.%s.%s' % (c, k))
    for i, r in enumerate(g):
        for k, v in r.items():
            if is_v3(hs, v):
                places.append('row' if k in g.column else 'row-undeclared-tag')
    return sorted(set(places))


PATHS = ['meta_set', 'meta_append', 'meta_extend', 'meta_add_item', 'meta_update', 'colmeta_set', 'colmeta_append', 'col_assign',
         'append', 'insert', 'extend', 'iadd', 'setitem',
         # rows may carry tags for which no column is declared (yet): they are part of the grid all the same
         'append_undeclared', 'extend_undeclared', 'setitem_undeclared',
         # positions that list.insert clamps: a refused store must leave the grid as it was there too
         'insert_negative', 'insert_beyond_end',
         # rows handed over as one-shot iterables
         'extend_generator', 'iadd_iterator', 'extend_grid', 'iadd_grid']


# earlier activity of the same process (other grids, other versions): the gate of a grid must not depend on it.  Every
# root starts from the import-time module state (mc/modstate.py), then performs the prelude, then builds its grid.
PRELUDES = ['suffixed-versions-seen', 'three-group-versions-seen', 'other-grids-gated']


def prelude(hs, name):
    import warnings
    with warnings.catch_warnings():
        warnings.simplefilter('ignore')
        if name == 'suffixed-versions-seen':
            for v in ('2.0a', '2.0-beta', '3.0rc1', '1.0x'):
                hs.Version.nearest(v)
                H.outcome(lambda: hs.Grid(version=v, columns=[('c', [])]).append({'c': [1.0]}))
        elif name == 'three-group-versions-seen':
            for v in ('3.0.0', '2.0.0', '2.0.1', '3.0.0.0'):
                hs.Version.nearest(v)
                hs.Version(v) == hs.VER_3_0, hs.Version(v) < hs.VER_2_0, hs.VER_2_0 == hs.Version(v), hs.VER_3_0 > hs.Version(v)
                H.outcome(lambda: hs.Grid(version=v, columns=[('c', [])]).append({'c': hs.NA}))
        elif name == 'other-grids-gated':
            for v in (None, '2.0', '3.0', '2.5', '4.0'):
                kw = {} if v is None else {'version': v}
                for val in ([1.0], hs.NA, {'a': 1.0}):
                    H.outcome(lambda: hs.Grid(columns=[('c', [])], **kw).append({'c': val}))
                    H.outcome(lambda: hs.dump_scalar(val, mode=hs.MODE_JSON, version=hs.Version(v or '2.0')))
        else:
            raise HarnessError(name)


OBSERVATIONS = ['repr', 'ver_str', 'dump-zinc', 'dump-json', 'eq']


class GateSpec(H.Spec):
    name = 'gating'

    def __init__(self):
        import hszinc
        self.hs = hszinc

    def roots(self):
        roots = []
        for v in VERSIONS:
            roots.append(['plain', v])
            for pre in PRELUDES:
                roots.append(['plain-after', v, pre])
            # a copy of a grid is a grid: gated on its own, whether or not the original is still alive
            for how in ('deepcopy', 'deepcopy-original-dropped', 'copy'):
                roots.append(['plain-copied', v, how])
            for k in KINDS:
                roots.append(['ctor-meta', v, k])
                roots.append(['ctor-colmeta', v, k])
                roots.append(['ctor-colmeta-dict', v, k])
                roots.append(['ctor-donor-columns', v, k])
                roots.append(['ctor-donor-metadata', v, k])
        return roots

    def fresh(self, root):
        hs = self.hs
        kind, v = root[0], root[1]
        kw = {} if v == 'none' else {'version': v}
        model = {'v': v, 'refused_ctor': False, 'prelude': root[2] if kind == 'plain-after' else None}
        modstate.restore()
        if kind == 'plain-after':
            prelude(hs, root[2])
        try:
            if kind in ('plain', 'plain-after'):
                g = hs.Grid(columns=[('c', []), ('d', [])], **kw)
            elif kind == 'plain-copied':
                import copy
                import gc
                orig = hs.Grid(metadata={'p': 'plain'}, columns=[('c', [('cm', 'plain')]), ('d', [])], **kw)
                orig.append({'c': 'plain'})
                g = copy.copy(orig) if root[2] == 'copy' else copy.deepcopy(orig)
                if root[2] == 'deepcopy-original-dropped':
                    del orig
                    gc.collect()
                elif root[2] == 'deepcopy':
                    model['original'] = orig
                    model['original_version'] = str(orig.version)
            elif kind == 'ctor-meta':
                g = hs.Grid(metadata={'x': mkval(hs, root[2])}, columns=[('c', []), ('d', [])], **kw)
            elif kind == 'ctor-colmeta':
                g = hs.Grid(columns=[('c', [('x', mkval(hs, root[2]))]), ('d', [])], **kw)
            elif kind == 'ctor-colmeta-dict':
                g = hs.Grid(columns={'c': {'x': mkval(hs, root[2])}, 'd': {}}, **kw)
            elif kind == 'ctor-donor-columns':
                # the README's way to copy a header: hand another grid's column objects to the constructor
                donor = hs.Grid(version='3.0', columns=[('c', [('x', mkval(hs, root[2]))]), ('d', [])])
                g = hs.Grid(columns=donor.column, **kw)
                model['donor'] = donor
            else:
                donor = hs.Grid(version='3.0', metadata={'x': mkval(hs, root[2])}, columns=[('c', []), ('d', [])])
                g = hs.Grid(metadata=donor.metadata, columns=donor.column, **kw)
                model['donor'] = donor
        except ValueError:
            model['refused_ctor'] = True
            g = hs.Grid(columns=[('c', []), ('d', [])], **kw)
        except Exception as e:  # noqa
            model['ctor_exc'] = type(e).__name__
            g = hs.Grid(columns=[('c', []), ('d', [])], **kw)
        return g, model

    def ops(self, g, model):
        ops = []
        for what in OBSERVATIONS:
            ops.append(('observe', what))
        for p in PATHS:
            if p in ('setitem', 'setitem_undeclared') and len(g) == 0:
                continue
            if p in ('append', 'insert', 'extend', 'iadd', 'append_undeclared', 'extend_undeclared', 'insert_negative', 'insert_beyond_end',
                     'extend_generator', 'iadd_iterator', 'extend_grid', 'iadd_grid') and len(g) >= 2:
                continue
            for k in KINDS:
                ops.append((p, k))
        return ops

    def apply(self, g, op):
        hs = self.hs
        p, k = op
        if p == 'observe':
            # reads: they change nothing the property can see, but may fill a memo (the state key holds every extra attribute)
            if k == 'repr':
                repr(g)
            elif k == 'ver_str':
                getattr(g, 'ver_str', None)
                str(g.version)
            elif k == 'dump-zinc':
                H.outcome(hs.dump, g, mode=hs.MODE_ZINC)
            elif k == 'dump-json':
                H.outcome(hs.dump, g, mode=hs.MODE_JSON)
            elif k == 'eq':
                H.outcome(lambda: g == g)
            return
        val = mkval(hs, k)
        if p == 'meta_set':
            g.metadata['x'] = val
        elif p == 'meta_append':
            g.metadata.append('y', val)
        elif p == 'meta_extend':
            g.metadata.extend([('z', val)])
        elif p == 'meta_add_item':
            g.metadata.add_item('w', val, index=0)
        elif p == 'meta_update':
            g.metadata.update({'u': val})
        elif p == 'colmeta_set':
            g.column['c']['x'] = val
        elif p == 'colmeta_append':
            g.column['c'].append('y', val)
        elif p == 'col_assign':
            g.column['d'] = {'x': val}
        elif p == 'append':
            g.append({'c': val})
        elif p == 'insert':
            g.insert(0, {'c': 1.0, 'd': val})
        elif p == 'extend':
            g.extend([{'c': 1.0}, {'c': val}])
        elif p == 'iadd':
            g += [{'d': val}]
        elif p == 'setitem':
            g[0] = {'c': val}
        elif p == 'extend_generator':
            g.extend(r for r in [{'c': 1.0}, {'c': val}])
        elif p == 'iadd_iterator':
            g += iter([{'d': val}])
        elif p in ('extend_grid', 'iadd_grid'):
            # the rows come from another Grid object (a 3.0 grid that holds them legitimately)
            donor = hs.Grid(version='3.0', columns=[('c', []), ('d', [])])
            donor.append({'c': 1.0})
            donor.append({'d': val})
            if p == 'extend_grid':
                g.extend(donor)
            else:
                g += donor
        elif p == 'insert_negative':
            g.insert(-1, {'c': val})
        elif p == 'insert_beyond_end':
            g.insert(len(g) + 3, {'d': val})
        elif p == 'append_undeclared':
            g.append({'c': 1.0, 'e': val})
        elif p == 'extend_undeclared':
            g.extend([{'c': 1.0}, {'e': val}])
        elif p == 'setitem_undeclared':
            g[0] = {'zz': val, 'd': 1.0}
        else:
            raise HarnessError(op)

    def step(self, g, model, op, st, hist):
        hs = self.hs
        p, k = op
        v = model['v']
        if p == 'observe':
            got = H.outcome(self.apply, g, op)
            if hist is not None and got[0] == 'raise':
                st.fail('observation-raised', {'path': 'observe', 'kind': k, 'version': vclass(v), 'exc': got[1]},
                        {'root': hist[0], 'history': [list(o) for o in hist[1]]}, {'op': list(op)})
                return False
            return True
        before = reachable_v3(hs, g)
        rows_before = [id(r) for r in g]
        got = H.outcome(self.apply, g, op)
        if hist is None:
            return True
        case = {'root': hist[0], 'history': [list(o) for o in hist[1]]}
        sig = {'path': p, 'kind': k, 'version': vclass(v)}
        after = reachable_v3(hs, g)
        if k in V3KINDS and pre3(v):
            if got != ('raise', 'ValueError'):
                st.fail('pre-3.0-grid-accepts-3.0-only-value', dict(sig, observed=str(got[1]) if got[0] == 'raise' else 'accepted'), case,
                        {'op': list(op), 'declared': v, 'reachable_3.0_data': after})
                # the grid now holds mislabelled data: the writers must still refuse it
                self.writers(g, v, after, False, st, sig, case)
                return False
            if after != before and not (p in ('extend', 'extend_undeclared', 'extend_generator', 'extend_grid', 'iadd_grid')):
                st.fail('refused-store-left-3.0-only-value-in-grid', sig, case, {'op': list(op), 'reachable_3.0_data': after})
                return False
            if [id(r) for r in g] != rows_before and p not in ('extend', 'extend_undeclared', 'iadd', 'extend_generator', 'iadd_iterator', 'extend_grid', 'iadd_grid'):
                st.fail('refused-store-changed-the-rows-of-the-grid', sig, case, {'op': list(op), 'rows_before': len(rows_before), 'rows_after': len(g)})
                return False
        else:
            if got[0] == 'raise':
                st.fail('store-refused-although-version-allows-it', dict(sig, observed=got[1]), case, {'op': list(op), 'declared': v})
                return False
        return True

    def check(self, g, model, st, hist):
        hs = self.hs
        v = model['v']
        case = {'root': hist[0], 'history': [list(o) for o in hist[1]]}
        last = list(hist[1][-1]) if hist[1] else list(hist[0])
        lastpath = last[0]
        lastkind = last[-1] if last[-1] in KINDS else 'plain'
        sig = {'path': lastpath, 'kind': lastkind, 'version': vclass(v)}
        places = reachable_v3(hs, g)
        rep = str(g.version)
        try:
            rep3 = refversion.cmp(rep, '3.0') >= 0
        except ValueError:
            rep3 = False
        if hist[0][0].startswith('ctor') and not hist[1]:
            k = hist[0][2]
            if k in V3KINDS and pre3(v) and not model['refused_ctor']:
                st.fail('pre-3.0-grid-accepts-3.0-only-value', dict(sig, observed=model.get('ctor_exc', 'accepted')), case, {'declared': v, 'reachable_3.0_data': places})
                return False
            if model['refused_ctor'] and not (k in V3KINDS and pre3(v)):
                st.fail('store-refused-although-version-allows-it', dict(sig, observed='ValueError'), case, {'declared': v})
                return False
        broken = False
        if 'original' in model:
            orig = model['original']
            if str(orig.version) != model['original_version'] or reachable_v3(hs, orig):
                st.fail('store-into-a-copy-changed-the-original-grid', sig, case,
                        {'declared': v, 'original_version_now': str(orig.version), 'original_3.0_data': reachable_v3(hs, orig)})
                return False
        if places and pre3(v):
            st.fail('3.0-only-value-reachable-in-pre-3.0-grid', sig, case, {'declared': v, 'places': places})
            broken = True
        elif places and not rep3:
            st.fail('grid-reports-pre-3.0-version-while-holding-3.0-only-value', sig, case, {'declared': v, 'reported': rep, 'places': places})
            broken = True
        if v != 'none' and refversion.cmp(rep, v) != 0:
            st.fail('explicit-version-changed', sig, case, {'declared': v, 'reported': rep})
            return False
        # the writers are the last line of defence: they are evaluated on EVERY reached state, including states in
        # which the grid already holds mislabelled data (e.g. through the known column-assignment bypass)
        if self.writers(g, v, places, rep3, st, sig, case) is False or broken:
            return False
        # grids derived from this one (slices, filter results) are grids too: the same invariant and writers apply
        if len(g):
            for what, make in (('slice-all', lambda: g[:]), ('slice-first', lambda: g[0:1]), ('slice-rest', lambda: g[1:]), ('slice-reversed', lambda: g[::-1]),
                               ('filter-all', lambda: g.filter('c or d or not c')), ('filter-limit', lambda: g.filter('', 1)), ('filter-none', lambda: g.filter('zz'))):
                got = H.outcome(make)
                if got[0] != 'ok':
                    st.fail('derived-grid-raised', dict(sig, derived=what, exc=got[1]), case, {'declared': v})
                    return False
                dg = got[1]
                dplaces = reachable_v3(hs, dg)
                try:
                    drep3 = refversion.cmp(str(dg.version), '3.0') >= 0
                except ValueError:
                    drep3 = False
                dsig = dict(sig, derived=what)
                if dplaces and not drep3:
                    st.fail('derived-grid-reports-pre-3.0-version-while-holding-3.0-only-value', dsig, case,
                            {'declared': v, 'source_version': rep, 'derived_version': str(dg.version), 'places': dplaces})
                    return False
                if self.writers(dg, v, dplaces, drep3, st, dsig, case) is False:
                    return False
        return True

    def writers(self, g, v, places, rep3, st, sig, case):
        hs = self.hs
        places = [x for x in places if x != 'row-undeclared-tag']      # the writers emit declared columns only
        # both writers on every reached state
        for mode, name in ((hs.MODE_ZINC, 'zinc'), (hs.MODE_JSON, 'json')):
            got = H.outcome(hs.dump, g, mode=mode)
            if got[0] == 'raise':
                if got[1] != 'ValueError' or not places or rep3:
                    st.fail('writer-raised', dict(sig, writer=name, exc=got[1], has_3_0_data=bool(places)), case, {'declared': v, 'places': places})
                    return False
                continue
            text = got[1]
            if name == 'zinc':
                mo = re.match(r'ver:"([^"]*)"', text)
                dv = mo.group(1) if mo else None
            else:
                dv = json.loads(text)['meta'].get('ver')
            try:
                d3 = refversion.cmp(dv, '3.0') >= 0
            except Exception:  # noqa
                d3 = False
            if places and not d3:
                st.fail('writer-emits-3.0-only-value-under-pre-3.0-version', dict(sig, writer=name), case,
                        {'declared': v, 'emitted_version': dv, 'places': places, 'text': text[:300]})
                return False
        return True

    def key(self, g, model):
        hs = self.hs
        extra = tuple(sorted((k, H.describe_attr(g, x)) for k, x in vars(g).items()
                             if k not in ('_version', '_version_given', 'metadata', 'column', '_row', '_index')))
        return (model['v'], model['prelude'], extra, 'orig' in model or 'original' in model, str(g.version), tuple(reachable_v3(hs, g)), len(g), tuple(sorted(g.metadata.keys())),
                tuple((c, tuple(sorted(m.keys())), type(m).__name__) for c, m in g.column.items()))


def matrix(st):
    """Complete agreement matrix: for every declared version x 3.0-only kind, all five deciders must
    refuse iff the version is below 3.0."""
    import hszinc as hs
    for v in VERSIONS[1:]:
        for k in KINDS:
            want_refuse = pre3(v) and k in V3KINDS
            decisions = {}
            n = NEUTRAL[k]
            # Grid
            def grid_path():
                g = hs.Grid(version=v, columns=[('c', [])])
                g.append({'c': mkval(hs, k)})
            decisions['grid'] = H.outcome(grid_path)
            decisions['zinc-writer'] = H.outcome(hs.dump_scalar, mkval(hs, k), mode=hs.MODE_ZINC, version=hs.Version(v))
            decisions['json-writer'] = H.outcome(hs.dump_scalar, mkval(hs, k), mode=hs.MODE_JSON, version=hs.Version(v))
            ztext = 'ver:"%s"\nc\n%s\n' % (v, refzinc.write_scalar(n))
            decisions['zinc-reader'] = H.outcome(hs.parse, ztext, mode=hs.MODE_ZINC)
            jobj = {'meta': {'ver': v}, 'cols': [{'name': 'c'}], 'rows': [{'c': refjson.write_scalar(n)}]}
            decisions['json-reader'] = H.outcome(hs.parse, json.dumps(jobj), mode=hs.MODE_JSON)
            zs = 'ver:"%s"\nc\n%s\n' % (v, refzinc.write_scalar(n))
            decisions['zinc-scalar-reader'] = H.outcome(hs.parse_scalar, refzinc.write_scalar(n), mode=hs.MODE_ZINC, version=v)
            decisions['json-scalar-reader'] = H.outcome(hs.parse_scalar, refjson.write_scalar(n), mode=hs.MODE_JSON, version=v)
            vec = []
            for dec, got in sorted(decisions.items()):
                st.count('executions')
                st.count('transitions')
                refused = got[0] == 'raise'
                vec.append(refused)
                case = {'matrix': True, 'version': v, 'kind': k, 'decider': dec}
                sig = {'decider': dec, 'version': vclass(v), 'kind': k}
                if refused and got[1] not in ('ValueError', 'ZincParseException'):
                    st.fail('gating-decider-raised-other-exception', dict(sig, exc=got[1]), case, {'zinc': ztext, 'json': jobj})
                elif refused != want_refuse:
                    st.fail('gating-decision-wrong', dict(sig, expected='refuse' if want_refuse else 'accept', observed='refuse' if refused else 'accept'),
                            case, {'zinc': ztext, 'json': jobj, 'all_decisions': {d: o[0] for d, o in decisions.items()}})
            st.count('states')
            st.case(('matrix', v, k), outcome=('matrix', tuple(vec)))
    # a nested grid carries its own version: 3.0-only data inside a nested grid labelled pre-3.0 must be refused by both
    # readers wherever it sits in that nested grid (row, grid metadata, column metadata)
    for inner_v in ('2.0', '1.0'):
        for k in V3KINDS:
            for place in ('row', 'meta', 'colmeta'):
                n = NEUTRAL[k]
                zval, jval = refzinc.write_scalar(n), refjson.write_scalar(n)
                if place == 'row':
                    zinner = 'ver:"%s"\nx\n%s\n' % (inner_v, zval)
                    jinner = {'meta': {'ver': inner_v}, 'cols': [{'name': 'x'}], 'rows': [{'x': jval}]}
                elif place == 'meta':
                    zinner = 'ver:"%s" m:%s\nx\n1\n' % (inner_v, zval)
                    jinner = {'meta': {'ver': inner_v, 'm': jval}, 'cols': [{'name': 'x'}], 'rows': [{'x': 'n:1'}]}
                else:
                    zinner = 'ver:"%s"\nx m:%s\n1\n' % (inner_v, zval)
                    jinner = {'meta': {'ver': inner_v}, 'cols': [{'name': 'x', 'm': jval}], 'rows': [{'x': 'n:1'}]}
                ztext = 'ver:"3.0"\nc\n<<%s>>\n' % zinner
                jobj = {'meta': {'ver': '3.0'}, 'cols': [{'name': 'c'}], 'rows': [{'c': jinner}]}
                for dec, got in (('zinc-reader', H.outcome(hs.parse, ztext, mode=hs.MODE_ZINC)),
                                 ('json-reader', H.outcome(hs.parse, json.dumps(jobj), mode=hs.MODE_JSON)),
                                 ('json-reader-object', H.outcome(hs.parse, jobj, mode=hs.MODE_JSON))):
                    st.count('executions')
                    st.count('transitions')
                    case = {'matrix': True, 'version': 'nested-' + inner_v, 'kind': k, 'decider': dec, 'place': place}
                    sig = {'decider': dec, 'version': 'nested-pre-3.0-in-3.0-document', 'kind': k, 'place': place}
                    st.case(('nested', inner_v, k, place, dec), outcome=('nested', got[0]))
                    if got[0] != 'raise':
                        st.fail('gating-decision-wrong', dict(sig, expected='refuse', observed='accept'), case, {'zinc': ztext, 'json': jobj})
                    elif got[1] not in ('ValueError', 'ZincParseException'):
                        st.fail('gating-decider-raised-other-exception', dict(sig, exc=got[1]), case, {'zinc': ztext})
    st.samples.append({'matrix_cell': {'version': '2.5', 'kind': 'list', 'deciders': 7}})


def run(ctx):
    depth = 2 if ctx.quick else 3
    st, info = H.bfs(GateSpec, depth=depth, seed=ctx.seed, jobs=ctx.jobs)
    matrix(st)
    st.outcomes |= set(list(st.inputs)[:1000])
    spec_roots = GateSpec().roots()
    return {
        'stats': st, 'exhaustive': True,
        'rule': 'explicit-state BFS to depth %d from %d roots (7 declared versions x {plain, constructor variants holding each value kind, donor headers, 3 preludes of '
                'earlier activity from the import-time module state, copy / deepcopy / deepcopy with the original collected}): every entry path (%d: metadata '
                'set/append/extend/add_item/update, column metadata set/append, column assignment, append/insert/extend/+=/setitem, rows with undeclared tags, '
                'insert at clamped positions) x every value kind (%d, incl. instances of subclasses of the container kinds) and 5 observation reads (repr, '
                'ver_str, both dumps, ==) applied to every reachable state; gating invariant, row preservation on refusal, originals of copies and both '
                'writers evaluated on every state; plus the complete agreement matrix 6 versions x kinds x 7 deciders; state = (declared version, prelude, '
                'extra instance attributes, reported version, places holding 3.0-only data, row count, metadata/column shape)' % (depth, len(spec_roots), len(PATHS), len(KINDS)),
        'coverage': {'bounds': {'versions': VERSIONS, 'kinds': KINDS, 'paths': PATHS, 'depth': depth, 'info': info}},
        'assumptions': ['"pre-3.0" is decided by ref/refversion.py on the declared version string; a grid created without a version must '
                        'report >= 3.0 as soon as 3.0-only data is reachable from it'],
    }


def replay(case, st):
    if case.get('matrix'):
        sub = Stats()
        matrix(sub)
        for f in sub.failures:
            if all(f['case'].get(k) == case.get(k) for k in ('version', 'kind', 'decider')):
                st.fail(f['symptom'], f['sig'], f['case'], f['detail'])
        return
    spec = GateSpec()
    root = case['root']
    hist = [tuple(o) for o in case['history']]
    g, model = spec.fresh(root)
    if not hist:
        spec.check(g, model, st, (root, []))
    for i, op in enumerate(hist):
        last = i == len(hist) - 1
        ok = spec.step(g, model, op, st, (root, hist[:i + 1]) if last else None)
        if last and ok is not False:
            spec.check(g, model, st, (root, hist))
