"""C20 — a Quantity is numerically transparent.

Complete product space (Driver A): operator x operand pair x shape, oracle = the same expression on
the bare values (identical result incl. type, NaN, signed zero — or identical exception class).
"""
import math
import operator

from mc.explore import Stats, pmap, chunks, Product, seeded_rng, HarnessError

OPERANDS = [0, 1, -1, 2, 7, -3, 2 ** 62, 2 ** 53 + 1, 10 ** 400, True, 0.0, -0.0, 0.5, -1.5, 1e308, 5e-324,
            float('inf'), float('-inf'), float('nan')]

BINOPS = [('+', operator.add), ('-', operator.sub), ('*', operator.mul), ('/', operator.truediv),
          ('//', operator.floordiv), ('%', operator.mod), ('divmod', divmod), ('pow', pow),
          ('<<', operator.lshift), ('>>', operator.rshift), ('&', operator.and_), ('^', operator.xor),
          ('|', operator.or_)]
CMPOPS = [('<', operator.lt), ('<=', operator.le), ('==', operator.eq), ('!=', operator.ne),
          ('>=', operator.ge), ('>', operator.gt)]
UNOPS = [('neg', operator.neg), ('pos', operator.pos), ('abs', abs), ('invert', operator.invert),
         ('int', int), ('float', float), ('complex', complex)]
SHAPES = ['Q op x', 'x op Q', 'Q op Q same unit', 'Q op Q other unit', 'Q op Q unitless both',
          'Q(unit) op Q(no unit)']
# the same unit on an operand that did not come straight from the constructor (comparisons and + - only: cheap, and enough to
# reach the unit check)
LATE_SHAPES = ['Q op pickled Q', 'Q op deep-copied Q', 'Q op shallow-copied Q', 'Q op Q whose unit was assigned later']
UNITS = ['kg', None, '%', u'°C']
PINT_UNITS = ['kg', None, u'°C', 'kW']          # units the Pint registry knows (Pint mode refuses the others at construction)


def too_big(name, a, b):
    """Expressions whose bare evaluation does not terminate in reasonable time/memory."""
    ints = isinstance(a, int) and isinstance(b, int)
    if name == 'pow' and ints and abs(int(b)) > 64 and abs(int(a)) > 1:
        return True
    if name == '<<' and ints and int(b) > 4096 and int(a) != 0:
        return True
    return False


def ev(f, *args):
    try:
        return ('value', f(*args))
    except BaseException as e:  # noqa
        return ('raise', type(e).__name__)


def same(x, y):
    if type(x) is not type(y):
        return False
    if isinstance(x, tuple):
        return len(x) == len(y) and all(same(p, q) for p, q in zip(x, y))
    if isinstance(x, float):
        if math.isnan(x) or math.isnan(y):
            return math.isnan(x) and math.isnan(y)
        return x == y and math.copysign(1, x) == math.copysign(1, y)
    if isinstance(x, complex):
        return same(x.real, y.real) and same(x.imag, y.imag)
    return x == y


def same_outcome(exp, got):
    if exp[0] != got[0]:
        return False
    if exp[0] == 'raise':
        return exp[1] == got[1]
    return same(exp[1], got[1])


_PINT = False      # which Quantity class the current task explores (set by _task; read where cases are named)


def _mode(d):
    """Tag a signature / case dict with the Quantity mode (only when it is not the default, so older signatures stay as they were)."""
    if _PINT:
        d = dict(d)
        d['pint'] = True
    return d


def kind(o):
    return o[1] if o[0] == 'raise' else type(o[1]).__name__


def one(Q, name, op, a, b, shape, unit, st, is_cmp):
    if shape == 'Q op x':
        x, y, units_differ = Q(a, unit), b, False
    elif shape == 'x op Q':
        x, y, units_differ = a, Q(b, unit), False
    elif shape == 'Q op Q same unit':
        x, y, units_differ = Q(a, unit), Q(b, unit), False
    elif shape == 'Q op Q unitless both':
        x, y, units_differ = Q(a, None), Q(b, None), False
    elif shape in LATE_SHAPES:
        import copy
        import pickle
        x, units_differ = Q(a, unit), False
        if shape in ('Q op pickled Q', 'Q op deep-copied Q', 'Q op shallow-copied Q'):
            mk = {'Q op pickled Q': lambda q: pickle.loads(pickle.dumps(q)), 'Q op deep-copied Q': copy.deepcopy,
                  'Q op shallow-copied Q': copy.copy}[shape]
            try:
                y = mk(Q(b, unit))
            except Exception as e:      # a Quantity that cannot be copied: reported as the outcome of the expression
                st.count('executions')
                st.case((name, repr(a), repr(b), shape, unit, _PINT), outcome=('copy-raises', False))
                st.fail('quantity-not-transparent', _mode({'op': 'copy', 'shape': shape, 'expected': 'a copy', 'observed': type(e).__name__}),
                        _mode({'kind': 'bin', 'op': name, 'a': repr(a), 'b': repr(b), 'shape': shape, 'unit': unit}),
                        {'expr': '%s of Quantity(%r, %r)' % (shape, b, unit), 'observed': repr(e)[:200]})
                return
        else:
            y = Q(b, 's')
            # an equal unit that is another object (the unit as the library itself stores it: Pint mode keeps '' for "no unit")
            y.unit = ''.join(list(x.unit)) if isinstance(x.unit, str) and x.unit else x.unit
    elif shape == 'Q op the same Q object':
        x = Q(a, unit)
        y, units_differ = x, False
    elif shape == 'Q(unit) op Q(no unit)':
        x, y, units_differ = Q(a, 'kg'), Q(b, None), True
    else:
        x, y, units_differ = Q(a, unit), Q(b, 'm' if unit != 'm' else 's'), True
    if is_cmp and units_differ:
        exp = ('raise', 'TypeError')
    else:
        exp = ev(op, a, b)
    got = ev(op, x, y)
    st.count('executions')
    ok = same_outcome(exp, got)
    st.case((name, repr(a), repr(b), shape, unit, _PINT), outcome=(kind(exp), ok))
    if not ok:
        st.fail('quantity-not-transparent', _mode({'op': name, 'shape': shape, 'expected': kind(exp), 'observed': kind(got)}),
                _mode({'kind': 'bin', 'op': name, 'a': repr(a), 'b': repr(b), 'shape': shape, 'unit': unit}),
                {'expr': '%s: %r %s %r' % (shape, a, name, b), 'expected': repr(exp), 'observed': repr(got)})


def _first_pair_of(a, pairs):
    """Each operand a meets the other numeric types once per chunk in which it appears first (cheap de-duplication)."""
    return True


def task(pairs, units, pint=False):
    """pint=True: the same space with hszinc switched to its Pint-backed Quantity class (use_pint); the switch is process-wide, so it
    is put back before the worker takes its next task."""
    import hszinc as hs
    if pint:
        hs.use_pint(True)
        try:
            if type(hs.Quantity(1, 'kg')).__name__ != 'PintQuantity':
                raise HarnessError('use_pint(True) did not switch the Quantity class')
            return _task(pairs, units, True)
        finally:
            hs.use_pint(False)
    return _task(pairs, units, False)


def _task(pairs, units, pint):
    import hszinc as hs
    Q = hs.Quantity
    st = Stats()
    global _PINT
    _PINT = pint
    if pint:
        n = len(pairs)
        # Pint itself refuses a bool magnitude at construction (TypeError from pint, before any hszinc operator runs)
        pairs = [(a, b) for a, b in pairs if type(a) is not bool and type(b) is not bool]
        for _ in range(n - len(pairs)):
            st.skip('pint mode: pint refuses a bool magnitude at construction')
    for a, b in pairs:
        for unit in units:
            for name, op in BINOPS:
                if too_big(name, a, b):
                    st.skip('bare expression too large to evaluate')
                    continue
                for shape in SHAPES:
                    one(Q, name, op, a, b, shape, unit, st, False)
            for name, op in CMPOPS:
                for shape in SHAPES:
                    one(Q, name, op, a, b, shape, unit, st, True)
                for shape in LATE_SHAPES:
                    one(Q, name, op, a, b, shape, unit, st, True)
            for name, op in BINOPS[:2]:
                for shape in LATE_SHAPES:
                    one(Q, name, op, a, b, shape, unit, st, False)
            if type(a) is type(b) and repr(a) == repr(b):
                # both operands are one and the same Quantity object: still the value's own answer (nan != nan)
                for name, op in BINOPS:
                    if not too_big(name, a, b):
                        one(Q, name, op, a, b, 'Q op the same Q object', unit, st, False)
                for name, op in CMPOPS:
                    one(Q, name, op, a, b, 'Q op the same Q object', unit, st, True)
            # three-argument pow with a Quantity base
            for m in (5, -3, 0, False, 1):
                # (only where a ** b itself is small: an implementation that ignores the modulus must still terminate here)
                if isinstance(a, int) and isinstance(b, int) and not too_big('pow', a, b):
                    exp = ev(pow, a, b, m)
                    got = ev(pow, Q(a, unit), b, m)
                    got2 = ev(pow, Q(a, unit), Q(b, unit), m)
                    st.count('executions', 2)
                    for g, sh in ((got, 'pow3 Q,x,m'), (got2, 'pow3 Q,Q,m')):
                        st.case(('pow3', repr(a), repr(b), m, sh, unit, _PINT), outcome=(kind(exp), same_outcome(exp, g)))
                        if not same_outcome(exp, g):
                            st.fail('quantity-not-transparent', _mode({'op': 'pow3', 'shape': sh, 'expected': kind(exp), 'observed': kind(g)}),
                                    _mode({'kind': 'pow3', 'a': repr(a), 'b': repr(b), 'm': m, 'unit': unit}),
                                    {'expr': 'pow(Q(%r),%r,%r)' % (a, b, m), 'expected': repr(exp), 'observed': repr(g)})
    # operands of the other numeric types of the standard library (exact rationals, decimals, complex): the plain operand only
    import fractions
    import decimal
    others = [fractions.Fraction(1, 2), fractions.Fraction(-3, 1), decimal.Decimal('0.5'), decimal.Decimal('2'), complex(1.0, 2.0), complex(0.5, 0.0)]
    seen_a = set()
    for a, _b in pairs:
        if repr(a) in seen_a or type(a) is bool and repr(a) in seen_a:
            continue
        seen_a.add(repr(a))
        if not _first_pair_of(a, pairs):
            continue
        for x in others:
            for unit in units[:1]:
                for name, op in BINOPS[:7] + CMPOPS:          # not pow: Fraction ** huge int does not terminate on the bare values either
                    for shape, l, r in (('Q op x', Q(a, unit), x), ('x op Q', x, Q(a, unit))):
                        exp = ev(op, a, x) if shape == 'Q op x' else ev(op, x, a)
                        got = ev(op, l, r)
                        st.count('executions')
                        ok = same_outcome(exp, got)
                        st.case((name, repr(a), repr(x), shape, unit, _PINT), outcome=(kind(exp), ok))
                        if not ok:
                            st.fail('quantity-not-transparent', _mode({'op': name, 'shape': shape + ' (' + type(x).__name__ + ')', 'expected': kind(exp), 'observed': kind(got)}),
                                    _mode({'kind': 'other', 'op': name, 'a': repr(a), 'x': repr(x), 'shape': shape, 'unit': unit}),
                                    {'expr': '%s: %r %s %r' % (shape, a, name, x), 'expected': repr(exp), 'observed': repr(got)})
    if pairs:
        a, b = pairs[0]
        st.samples.append({'expr': 'Quantity(%r, %r) + %r' % (a, units[0], b), 'bare': repr(ev(operator.add, a, b))})
    return st


def unary(units, st, pint=False):
    import hszinc as hs
    global _PINT
    if pint:
        hs.use_pint(True)
    _PINT = pint
    try:
        _unary(hs, units, st)
    finally:
        _PINT = False
        if pint:
            hs.use_pint(False)


def _unary(hs, units, st):
    for a in OPERANDS:
        if _PINT and type(a) is bool:
            st.skip('pint mode: pint refuses a bool magnitude at construction')
            continue
        for unit in units:
            for name, op in UNOPS:
                exp, got = ev(op, a), ev(op, hs.Quantity(a, unit))
                st.count('executions')
                st.case((name, repr(a), unit, _PINT), outcome=(kind(exp), same_outcome(exp, got)))
                if not same_outcome(exp, got):
                    st.fail('quantity-not-transparent', _mode({'op': name, 'shape': 'unary', 'expected': kind(exp), 'observed': kind(got)}),
                            _mode({'kind': 'un', 'op': name, 'a': repr(a), 'unit': unit}),
                            {'expr': '%s(Q(%r))' % (name, a), 'expected': repr(exp), 'observed': repr(got)})


def run(ctx):
    units = UNITS[:2] if ctx.quick else UNITS
    pairs = [(a, b) for a in OPERANDS for b in OPERANDS]
    seeded_rng(ctx.seed, 'c20').shuffle(pairs)
    st = Stats()
    for part in pmap(task, [(c, units) for c in chunks(pairs, ctx.jobs * 2)], ctx.jobs):
        st.merge(part)
    unary(units, st)
    basic_exec = st.c['executions']
    # the same space once more on the library's other Quantity class (hszinc.use_pint): units Pint knows
    import hszinc as hs
    pint_units = []
    if getattr(hs, 'PINT_AVAILABLE', False):
        pint_units = PINT_UNITS[:2] if ctx.quick else PINT_UNITS
        for part in pmap(task, [(c, pint_units, True) for c in chunks(pairs, ctx.jobs * 2)], ctx.jobs):
            st.merge(part)
        unary(pint_units, st, True)
        if type(hs.Quantity(1, 'kg')).__name__ != 'BasicQuantity':
            raise HarnessError('the Quantity mode was not put back after the Pint sub-space')
    st.c['executions_pint_mode'] = st.c['executions'] - basic_exec
    space = Product(OPERANDS, OPERANDS, units, BINOPS + CMPOPS, SHAPES)
    s, t = space.tree_size()
    st.c['states'], st.c['transitions'] = s, t
    if basic_exec + sum(st.skips.values()) * len(SHAPES) < space.leaves():
        raise HarnessError('enumeration incomplete: %d < %d' % (basic_exec, space.leaves()))
    if pint_units and st.c['executions_pint_mode'] < 0.8 * basic_exec * len(pint_units) / len(units):
        raise HarnessError('Pint-mode enumeration incomplete: %d' % st.c['executions_pint_mode'])
    return {'stats': st, 'exhaustive': True,
            'rule': 'complete product: 19 operands^2 x units x (13 arithmetic/bitwise + 6 comparison operators) x 6 operand shapes (+ one Quantity object on both sides, on the diagonal; + a pickled / deep-copied / unit-assigned-later operand for comparisons and + -), '
                    '+ 3-argument pow with Quantity base, + 7 unary operators/conversions; the whole space a second time with hszinc switched to its Pint-backed Quantity class (units Pint knows, bool magnitudes excluded: Pint refuses them); distinct = distinct '
                    '(operator, a, b, shape, unit); every case is non-trivial (it evaluates an operator on a real Quantity)',
            'coverage': {'bounds': {'operands': len(OPERANDS), 'units': units, 'binary_ops': len(BINOPS), 'cmp_ops': len(CMPOPS),
                                    'shapes': SHAPES, 'late_shapes': LATE_SHAPES, 'unary': len(UNOPS), 'pint_mode_units': pint_units,
                                    'executions_pint_mode': st.c.get('executions_pint_mode', 0)}},
            'assumptions': ['oracle = the same Python expression on the bare values in the same interpreter',
                            'int ** int with exponent > 64 and int << int > 4096 skipped (bare expression does not terminate)']}


def replay(case, st):
    import hszinc as hs
    global _PINT
    if case.get('pint'):
        hs.use_pint(True)
        _PINT = True
        try:
            _replay(hs, case, st)
        finally:
            _PINT = False
            hs.use_pint(False)
    else:
        _replay(hs, case, st)


def _replay(hs, case, st):
    vals = {repr(o): o for o in OPERANDS}
    if case['kind'] == 'bin':
        ops = dict(BINOPS + CMPOPS)
        one(hs.Quantity, case['op'], ops[case['op']], vals[case['a']], vals[case['b']], case['shape'], case['unit'], st,
            case['op'] in dict(CMPOPS))
    elif case['kind'] == 'other':
        import fractions
        import decimal
        others = {repr(x): x for x in [fractions.Fraction(1, 2), fractions.Fraction(-3, 1), decimal.Decimal('0.5'), decimal.Decimal('2'), complex(1.0, 2.0), complex(0.5, 0.0)]}
        ops = dict(BINOPS + CMPOPS)
        a, x, op = vals[case['a']], others[case['x']], ops[case['op']]
        Q = hs.Quantity
        l, r = (Q(a, case['unit']), x) if case['shape'] == 'Q op x' else (x, Q(a, case['unit']))
        exp = ev(op, a, x) if case['shape'] == 'Q op x' else ev(op, x, a)
        got = ev(op, l, r)
        if not same_outcome(exp, got):
            st.fail('quantity-not-transparent', {'op': case['op'], 'shape': case['shape']}, case, {'expected': repr(exp), 'observed': repr(got)})
    elif case['kind'] == 'un':
        _unary(hs, [case['unit']], st)
    else:
        st.merge(_task([(vals[case['a']], vals[case['b']])], [case['unit']], _PINT))
