"""Shared Driver-B harness for C14 (Grid behaves as a list of row dicts) and C15 (lookup by id reflects
the rows currently in the grid): breadth-first search over operation histories on a real Grid in
lock-step with a plain Python list holding the very same row objects."""
from mc.explore import Stats, HarnessError
from mc import histories as H

MAXLEN = 3


def make_row(hs, label):
    if label == 'E':
        return {}
    if label == 'A':
        return {'id': 'a'}
    if label == 'B':
        return {'id': 'b'}
    if label == 'X':
        return {'x': 1}
    if label == 'A2':
        return {'id': 'a', 'dup': 1}
    if label == 'UA':
        return {'id': hs.Uri('a')}     # ids of the text-like kinds: str subclasses with their own notion of equality
    if label == 'BA':
        return {'id': hs.Bin('a')}
    if label == 'I2':
        return {'id': 2}               # an id that is a valid POSITION for some lengths of the grid
    if label == 'N1M1':
        return {'id': 1000001}         # numeric ids whose usual short renderings (%g, 6 significant digits) coincide
    if label == 'N1M2':
        return {'id': 1000002}
    if label == 'F25':
        return {'id': 2.5}
    if label == 'I1':
        return {'id': 1}               # equal to 1.0 (and hash-equal), printed differently: two different ids
    if label == 'F1':
        return {'id': 1.0}
    if label == 'XF':
        return {'x': 1.0000004}        # differs from X by less than any display tolerance: still another row
    if label == 'XT':
        return {'x': True}             # equal to X as a dict (True == 1): list semantics treat them alike
    if label == 'I7':
        return {'id': 7}
    if label == 'R':
        return {'id': hs.Ref('r')}
    if label == 'RD':
        return {'id': hs.Ref('r', 'dis')}
    if label == 'Z0':
        return {'id': 0}
    if label == 'ZE':
        return {'id': ''}
    if label == 'L':
        return {'x': [1.0]}
    if label == 'n5':
        return 5
    if label == 'nl':
        return [1]
    if label == 'nN':
        return None
    raise HarnessError(label)


def row_label(hs, row):
    if not isinstance(row, dict):
        return {int: 'n5', list: 'nl', type(None): 'nN'}.get(type(row), '?')
    if isinstance(row.get('x'), list):
        return 'L'
    if 'dup' in row:
        return 'A2'
    if 'x' in row:
        if row['x'] is True:
            return 'XT'
        return 'X' if row['x'] == 1 else 'XF'
    if 'id' not in row:
        return 'E'
    i = row['id']
    if i == '' and isinstance(i, str):
        return 'ZE'
    if i == 0 and isinstance(i, int) and not isinstance(i, bool):
        return 'Z0'
    if isinstance(i, hs.Uri):
        return 'UA'
    if isinstance(i, hs.Bin):
        return 'BA'
    if i == 'a':
        return 'A'
    if i == 'b':
        return 'B'
    if i == 7:
        return 'I7'
    if i == 2 and not isinstance(i, bool):
        return 'I2'
    if i == 1000001:
        return 'N1M1'
    if i == 1000002:
        return 'N1M2'
    if i == 2.5 and isinstance(i, float):
        return 'F25'
    if i == 1 and isinstance(i, float):
        return 'F1'
    if i == 1 and isinstance(i, int) and not isinstance(i, bool):
        return 'I1'
    if isinstance(i, hs.Ref):
        return 'RD' if i.has_value else 'R'
    return '?'


class GridSpec(H.Spec):
    name = 'grid'
    ROWS = ['E', 'A', 'B', 'X', 'A2']
    NONDICT = ['n5', 'nl', 'nN']
    LOOKUPS = True
    prop = 'C14'

    def __init__(self):
        import hszinc
        self.hs = hszinc

    # ---- roots: a fresh grid, and grids derived from reached states (slices, filter results) -----
    ROOTS = [['fresh'], ['fresh-unversioned'], ['fresh-reordered'], ['fresh-2.0']]

    def roots(self):
        return [list(r) for r in self.ROOTS]

    def fresh(self, root):
        hs = self.hs
        from mc import modstate
        modstate.restore()              # every history starts from the library's import-time module state (memos of earlier histories gone)
        if root[0] in ('fresh', 'fresh-numeric', 'fresh-kinds'):
            g = hs.Grid(version='3.0', metadata={'m': 'meta'}, columns=[('id', []), ('x', [('u', 'kg')]), ('dup', [])])
            return g, []
        if root[0] == 'fresh-2.0':
            # an explicit pre-3.0 version: rows holding a 3.0-only value (label L) are refused with ValueError, like non-dict rows with TypeError
            g = hs.Grid(version='2.0', metadata={'m': 'meta'}, columns=[('id', []), ('x', [('u', 'kg')]), ('dup', [])])
            return g, []
        if root[0] == 'fresh-reordered':
            # same header as 'fresh', but every ordered map reached its order by relocation, not by appending
            g = hs.Grid(version='3.0', metadata={'m2': 'second', 'm': 'meta'}, columns=[('x', [('w', 'late'), ('u', 'kg')]), ('dup', []), ('id', [])])
            for m, k in ((g.column, 'id'), (g.metadata, 'm'), (g.column['x'], 'u')):
                v = m[k]
                del m[k]
                m.add_item(k, v, index=0)
            return g, []
        if root[0] == 'fresh-unversioned':
            # no explicit version: the list row upgrades the grid to 3.0, which every derived grid must report too
            g = hs.Grid(metadata={'m': 'meta'}, columns=[('id', []), ('x', [('u', 'kg')]), ('dup', [])])
            r = make_row(hs, 'L')
            g.append(r)
            return g, [r]
        kind, base_root, hist, a, b = root
        g, model = H.build(self, base_root, [tuple(o) for o in hist])
        if kind == 'slice':
            return g[a:b], model[a:b]
        if kind == 'filter':
            return g.filter('id'), [r for r in model if 'id' in r]
        raise HarnessError(root)

    def derived_roots(self, g, model, hist, root):
        if root[0] not in ('fresh', 'fresh-unversioned', 'fresh-reordered', 'fresh-numeric', 'fresh-2.0', 'fresh-kinds') or len(hist) > 3 or not model:
            return []
        out = []
        n = len(model)
        for a, b in ((0, n), (0, 1), (1, n), (0, 0)):
            out.append(['slice', root, [list(o) for o in hist], a, b])
        if any('id' in r for r in model):
            out.append(['filter', root, [list(o) for o in hist], None, None])
        return out

    # ---- alphabet ------------------------------------------------------------------------------
    def lookup_keys(self):
        return ['a', 'b', 'zz', '7', '@r', "@r 'dis'", 'Ref:r', 'Ref:r:dis', '0', '']

    def ops(self, g, model):
        n = len(model)
        ops = []
        rows = self.ROWS + self.NONDICT
        if str(g.version) == '2.0':
            rows = ['A', 'E', 'L', 'n5']           # the pre-3.0 grid: ordinary rows, a row it must refuse for its content, a non-dict
        if n < MAXLEN:
            for r in rows:
                ops.append(('append', r))
                for i in (-3, -2, -1, 0, 1, 2, 3):
                    if -n - 1 <= i <= n + 1:
                        ops.append(('insert', i, r))
                ops.append(('iadd', [r]))
            if n + 2 <= MAXLEN:
                for pair in (['A', 'B'], ['A', 'A2'], ['E', 'A'], ['A', 'n5'], ['n5', 'A'], ['B', 'E'], ['X', 'X']):
                    ops.append(('extend', pair))
            ops.append(('extend', []))
            ops.append(('extend_gen', ['B']))
        for i in (-3, -2, -1, 0, 1, 2, 3):
            if -n - 1 <= i <= n:
                for r in rows:
                    ops.append(('setitem', i, r))
                ops.append(('delitem', i))
                ops.append(('pop', i))
        ops.append(('pop_last',))
        for a, b in ((0, 1), (0, 2), (1, None), (None, None), (-1, None), (5, None), (1, 1)):
            ops.append(('delslice', a, b))
        for r in (('A', 'E', 'B', 'X', 'A2', 'I7') if 'A' in self.ROWS else tuple(self.ROWS)) + tuple(x for x in ('XF', 'XT') if x in self.ROWS):
            ops.append(('remove', r))
        ops += [('reverse',), ('clear',)]
        if self.prop == 'C14' and n:
            # an operation on the grid from inside an iteration over the same grid: the iterator looks at the live rows, as a list's does
            ops += [('loop_remove',), ('loop_append', 'A'), ('loop_insert0', 'E'), ('loop_pop_last',)]
        if self.LOOKUPS:
            for k in self.lookup_keys():
                ops.append(('getkey', k))
                ops.append(('get', k))
        return ops

    def lk(self, k):
        hs = self.hs
        if k == 'Ref:r':
            return hs.Ref('r')
        if k == 'Ref:r:dis':
            return hs.Ref('r', 'dis')
        if k == 'Uri:a':
            return hs.Uri('a')
        if k == 'Bin:a':
            return hs.Bin('a')
        return k

    # ---- one step on both sides -------------------------------------------------------------------
    def step(self, g, model, op, st, hist):
        hs = self.hs
        kind = op[0]
        before = list(model)
        rows = None
        single_refusal = False

        def mk(label):
            return make_row(hs, label)

        if kind == 'append':
            r = mk(op[1])
            impl = lambda: g.append(r)  # noqa: E731
            ref = lambda: model.append(r)  # noqa: E731
            rows = [r]
        elif kind == 'insert':
            r = mk(op[2])
            impl = lambda: g.insert(op[1], r)  # noqa: E731
            ref = lambda: model.insert(op[1], r)  # noqa: E731
            rows = [r]
        elif kind == 'iadd':
            rs = [mk(x) for x in op[1]]

            def impl():
                gg = g
                gg += rs
                if gg is not g:
                    raise HarnessError('+= returned another object')
            ref = lambda: model.extend(rs)  # noqa: E731
            rows = rs
        elif kind in ('extend', 'extend_gen'):
            rs = [mk(x) for x in op[1]]
            impl = (lambda: g.extend(rs)) if kind == 'extend' else (lambda: g.extend(x for x in rs))
            ref = lambda: model.extend(rs)  # noqa: E731
            rows = rs
        elif kind == 'setitem':
            r = mk(op[2])

            def impl():
                g[op[1]] = r

            def ref():
                model[op[1]] = r
            rows = [r]
        elif kind == 'delitem':
            def impl():
                del g[op[1]]

            def ref():
                del model[op[1]]
        elif kind == 'delslice':
            def impl():
                del g[op[1]:op[2]]

            def ref():
                del model[op[1]:op[2]]
        elif kind == 'pop':
            impl = lambda: g.pop(op[1])  # noqa: E731
            ref = lambda: model.pop(op[1])  # noqa: E731
        elif kind == 'pop_last':
            impl = lambda: g.pop()  # noqa: E731
            ref = lambda: model.pop()  # noqa: E731
        elif kind == 'remove':
            v = mk(op[1])
            impl = lambda: g.remove(v)  # noqa: E731
            ref = lambda: model.remove(v)  # noqa: E731
        elif kind.startswith('loop_'):
            # both sides must hold the SAME new row object (rows are compared by identity)
            shared = mk(op[1]) if len(op) > 1 else None

            def during_with(seq):
                visited = 0
                for r in seq:
                    visited += 1
                    if visited > 8:
                        break
                    if kind == 'loop_remove':
                        seq.remove(r)
                    elif kind == 'loop_append' and len(seq) < MAXLEN:
                        seq.append(shared)
                    elif kind == 'loop_insert0' and len(seq) < MAXLEN:
                        seq.insert(0, shared)
                    elif kind == 'loop_pop_last' and len(seq) > 1:
                        seq.pop()
                return visited
            impl = lambda: during_with(g)  # noqa: E731
            ref = lambda: during_with(model)  # noqa: E731
        elif kind == 'reverse':
            impl = lambda: g.reverse()  # noqa: E731
            ref = lambda: model.reverse()  # noqa: E731
        elif kind == 'clear':
            impl = lambda: g.clear()  # noqa: E731
            ref = lambda: model.clear()  # noqa: E731
        elif kind in ('getkey', 'get'):
            return self.lookup(g, model, op, st, hist)
        else:
            raise HarnessError('unknown op %r' % (op,))

        nondict = rows is not None and any(not isinstance(r, dict) for r in rows)
        refuse_exc = 'TypeError'
        if not nondict and rows is not None and str(g.version) == '2.0' and any(isinstance(x, (list, dict)) for r in rows for x in r.values()):
            nondict, refuse_exc = True, 'ValueError'        # refused for its content: the same rules as for a non-dict row
        index_state = 'none' if getattr(g, '_index', 0) is None else 'built'
        sig = {'op': kind, 'index_state': index_state, 'derived': hist[0][0] if hist else '-'}
        if rows is not None:
            sig['row'] = 'non-dict' if nondict else ('with-id' if any('id' in r for r in rows) else 'no-id')
        got = H.outcome(impl)
        if nondict:
            exp = ('raise', refuse_exc)
            single_refusal = kind in ('append', 'insert', 'setitem') or (kind == 'iadd')
            if kind == 'setitem' and not (-len(before) <= op[1] < len(before)):
                exp = ('raise-any', (refuse_exc, 'IndexError'))
        else:
            exp = H.outcome(ref)
        if hist is None:
            if nondict and kind in ('extend', 'extend_gen', 'iadd'):
                model[:] = list(g)
            return True
        case = {'root': hist[0], 'history': [list(o) for o in hist[1]]}
        cur = list(g)
        if self.prop != 'C14':
            # sequence behaviour is C14's subject: here a misbehaving operation only ends the branch
            class _Quiet(object):
                def fail(self_, *a, **k):
                    st.count('sequence_failures_left_to_C14')
            st_ = _Quiet()
        else:
            st_ = st
        if nondict:
            ok = got[0] == 'raise' and (got[1] == refuse_exc or (exp[0] == 'raise-any' and got[1] in exp[1]))
            if not ok:
                st_.fail('non-dict-row-not-refused' if refuse_exc == 'TypeError' else 'row-with-3.0-only-value-not-refused-with-ValueError', dict(sig, observed=str(got[1] if got[0] == 'raise' else 'accepted')), case, {'op': list(op)})
                return False
            same = len(cur) == len(before) and all(x is y for x, y in zip(cur, before))
            if single_refusal and not same:
                st_.fail('refused-operation-changed-the-grid', sig, case, {'op': list(op), 'before': self.labels(before), 'after': self.labels(cur)})
                return False
            if not same:
                # multi-row extend refused part-way: any prefix-extension is accepted
                k = len(before)
                okp = len(cur) >= k and all(x is y for x, y in zip(cur, before)) and all(any(c is r for r in rows) for c in cur[k:])
                if not okp:
                    st_.fail('refused-operation-changed-the-grid', sig, case, {'op': list(op), 'before': self.labels(before), 'after': self.labels(cur)})
                    return False
                model[:] = cur
            return True
        if got[0] != exp[0] or (got[0] == 'raise' and got[1] != exp[1]):
            st_.fail('operation-outcome-differs-from-list', dict(sig, expected=str(exp[1] if exp[0] == 'raise' else 'ok'),
                                                                 observed=str(got[1] if got[0] == 'raise' else 'ok')),
                    case, {'op': list(op), 'before': self.labels(before)})
            return False
        if got[0] == 'ok' and kind.startswith('loop_') and got[1] != exp[1]:
            st_.fail('iteration-visited-another-number-of-rows', dict(sig, expected=str(exp[1]), observed=str(got[1])), case, {'op': list(op), 'before': self.labels(before)})
            return False
        if got[0] == 'ok' and got[1] is not exp[1] and kind in ('pop', 'pop_last'):
            st_.fail('operation-returned-wrong-row', sig, case, {'op': list(op)})
            return False
        if len(cur) != len(model) or any(x is not y for x, y in zip(cur, model)):
            st_.fail('rows-differ-from-list', sig, case, {'op': list(op), 'before': self.labels(before), 'expected': self.labels(model), 'observed': self.labels(cur)})
            return False
        return True

    def labels(self, rows):
        return [row_label(self.hs, r) for r in rows]

    # ---- lookup by id (C15) ---------------------------------------------------------------------
    def expected_lookup(self, model, key):
        return [r for r in model if isinstance(r, dict) and 'id' in r and str(r['id']) == str(key)]

    def lookup(self, g, model, op, st, hist):
        key = self.lk(op[1])
        cands = self.expected_lookup(model, key)
        if op[0] == 'getkey':
            got = H.outcome(lambda: g[key])
        else:
            got = H.outcome(lambda: g.get(key, 'dflt'))
        if hist is None or self.prop != 'C15':
            return True     # for C14 a lookup is only a state-changing read
        case = {'root': hist[0], 'history': [list(o) for o in hist[1]]}
        sig = {'op': op[0], 'key': op[1], 'derived': hist[0][0]}
        if cands:
            if got[0] != 'ok' or not any(got[1] is c for c in cands):
                what = 'a row that is not in the grid' if (got[0] == 'ok' and isinstance(got[1], dict)) else str(got[1])
                st.fail('lookup-misses-current-row', dict(sig, observed=what if got[0] == 'raise' or what.startswith('a row') else 'default'),
                        case, {'op': list(op), 'rows': self.labels(model)})
                return False
        else:
            want = ('raise', 'KeyError') if op[0] == 'getkey' else ('ok', 'dflt')
            if got != want:
                obs = 'stale-row' if (got[0] == 'ok' and isinstance(got[1], dict)) else str(got[1])
                st.fail('lookup-returns-removed-row' if obs == 'stale-row' else 'lookup-internal-error', dict(sig, observed=obs),
                        case, {'op': list(op), 'rows': self.labels(model)})
                return False
        return True

    # ---- invariant over everything observable -------------------------------------------------------
    def check(self, g, model, st, hist):
        hs = self.hs
        case = {'root': hist[0], 'history': [list(o) for o in hist[1]]}
        last = hist[1][-1][0] if hist[1] else 'root'
        problems = []
        n = len(model)
        if H.outcome(len, g) != ('ok', n):
            problems.append(('len', 'len %r != %d' % (H.outcome(len, g), n)))
        it = H.outcome(list, g)
        if it[0] != 'ok' or len(it[1]) != n or any(x is not y for x, y in zip(it[1], model)):
            problems.append(('iter', 'iteration differs'))
        for i in range(-n - 2, n + 2):
            e, o = H.outcome(lambda: model[i]), H.outcome(lambda: g[i])
            if e[0] != o[0] or (e[0] == 'ok' and e[1] is not o[1]) or (e[0] == 'raise' and e[1] != o[1]):
                problems.append(('getitem', 'g[%d]: %r, list gives %r' % (i, o, e)))
        for sl in (slice(None, None), slice(0, 1), slice(1, None), slice(-1, None), slice(None, -1), slice(0, 0), slice(2, 9),
                   slice(None, None, -1), slice(None, None, 2)):
            o = H.outcome(lambda: g[sl])
            e = model[sl]
            if o[0] != 'ok' or not isinstance(o[1], hs.Grid):
                problems.append(('slice', 'g[%r] -> %r' % (sl, o)))
                continue
            s = o[1]
            srows = H.outcome(list, s)
            if srows[0] != 'ok' or len(srows[1]) != len(e) or any(x is not y for x, y in zip(srows[1], e)):
                problems.append(('slice', 'g[%r] rows differ' % (sl,)))
            try:
                meta_ok = (str(s.version) == str(g.version) and list(s.metadata.items()) == list(g.metadata.items())
                           and list(s.column.keys()) == list(g.column.keys())
                           and [list(v.items()) for v in s.column.values()] == [list(v.items()) for v in g.column.values()])
            except Exception as ex:  # noqa
                meta_ok = False
            if not meta_ok:
                problems.append(('slice-header', 'g[%r] lost version/metadata/columns' % (sl,)))
        for label in self.ROWS + ['I7']:
            v = make_row(hs, label)
            e, o = (v in model), H.outcome(lambda: v in g)
            if o != ('ok', e):
                problems.append(('contains', '%s in g -> %r, list gives %r' % (label, o, e)))
            e, o = H.outcome(lambda: model.index(v)), H.outcome(lambda: g.index(v))
            if o != e:
                problems.append(('index', 'g.index(%s) -> %r, list gives %r' % (label, o, e)))
            e, o = H.outcome(lambda: model.count(v)), H.outcome(lambda: g.count(v))
            if o != e:
                problems.append(('count', 'g.count(%s) -> %r, list gives %r' % (label, o, e)))
        if self.prop == 'C14':
            for what, msg in problems[:1]:
                st.fail('grid-observation-differs-from-list', {'what': what, 'after_op': last, 'derived': hist[0][0]}, case,
                        {'problems': [m for _, m in problems[:6]], 'rows': self.labels(model)})
            if problems:
                return False
        elif problems:
            return False
        if self.prop == 'C15':
            for k in self.lookup_keys():
                for kind in ('getkey', 'get'):
                    if self.lookup(g, model, (kind, k), st, hist) is False:
                        return False
        return True

    def key(self, g, model):
        hs = self.hs
        labels = tuple(self.labels(model))
        idx = getattr(g, '_index', 'absent')
        if idx is None:
            hidden = 'none'
        elif isinstance(idx, dict):
            ent = []
            for k, row in idx.items():
                pos = [i for i, r in enumerate(model) if r is row]
                ent.append((str(k), row_label(hs, row), pos[0] if pos else -1))
            hidden = tuple(sorted(ent))
        else:
            hidden = ('unknown', id(g))
        extra = []
        for k, v in sorted(vars(g).items()):
            if k in ('_row', '_index', 'metadata', 'column', '_version', '_version_given'):
                continue
            extra.append((k, H.describe_attr(g, v)))  # any further hidden attribute (memo, cache) a refactor may add, never by address
        return (labels, hidden, bool(getattr(g, '_version_given', True)), str(g.version), tuple(extra))


class C14Quick(GridSpec):
    prop = 'C14'
    ROWS = ['E', 'A', 'I2', 'X', 'A2', 'XF']
    LOOKUPS = True

    def lookup_keys(self):
        return ['a', 'zz']


class C14Thorough(C14Quick):
    ROWS = ['E', 'A', 'B', 'I2', 'X', 'A2', 'XF', 'XT', 'I7', 'R']


class C15Quick(GridSpec):
    prop = 'C15'
    ROOTS = [['fresh']]          # the declared version plays no part in id lookups
    ROWS = ['E', 'A', 'A2', 'B', 'I7', 'R', 'RD', 'Z0', 'ZE']
    NONDICT = ['n5']


class C15Thorough(C15Quick):
    ROWS = ['E', 'A', 'A2', 'B', 'I7', 'R', 'RD', 'Z0', 'ZE', 'X']


class C15Numeric(GridSpec):
    """Numeric ids: ints beyond six digits and floats (their string form is the key, whatever their size)."""
    prop = 'C15'
    name = 'grid-numeric-ids'
    ROOTS = [['fresh-numeric']]
    ROWS = ['E', 'N1M1', 'N1M2', 'I1', 'F1']
    NONDICT = []

    def lookup_keys(self):
        return ['1000001', '1000002', '1', '1.0', '1e+06', 'zz']

    def ops(self, g, model):
        return [o for o in GridSpec.ops(self, g, model) if o[0] not in ('extend', 'extend_gen')]


class C15Kinds(GridSpec):
    """Ids and keys of the text-like kinds (Uri, Bin) next to a plain string with the same text."""
    prop = 'C15'
    name = 'grid-text-kind-ids'
    ROOTS = [['fresh-kinds']]
    ROWS = ['E', 'A', 'UA', 'BA']
    NONDICT = []

    def lookup_keys(self):
        return ['a', 'Uri:a', 'Bin:a', 'zz']

    def ops(self, g, model):
        return [o for o in GridSpec.ops(self, g, model) if o[0] not in ('extend', 'extend_gen')]


def spec_for(prop, root):
    r = root
    while r and r[0] in ('slice', 'filter'):
        r = r[1]
    if r and r[0] == 'fresh-numeric':
        return C15Numeric()
    if r and r[0] == 'fresh-kinds':
        return C15Kinds()
    return C14Thorough() if prop == 'C14' else C15Thorough()


SLICES = [(None, None, None), (0, 1, None), (1, None, None), (None, None, -1), (0, 2, None)]
PAIR_OPS = [('append', 'A'), ('append', 'B'), ('append', 'I7'), ('append', 'R'), ('append', 'Z0'), ('insert', 0, 'A2'), ('insert', 0, 'B'), ('delitem', 0), ('delitem', -1),
            ('setitem', 0, 'B'), ('setitem', 0, 'E'), ('extend', ['B', 'I7']), ('reverse',), ('clear',), ('pop_last',)]


def aliasing_task(factory, states):
    """Parent / derived-grid independence: after g2 = g[a:b], one more operation on either grid must leave
    the OTHER grid's rows and id lookups exactly as its own model says (a shared index would leak)."""
    spec = factory()
    st = Stats()
    for root, hist in states:
        hist = [tuple(o) for o in hist]
        for warm in (False, True):
            for sl in SLICES:
                for side in ('child', 'parent'):
                    for op in PAIR_OPS:
                        g, model = H.build(spec, root, hist)
                        if warm:
                            g.get('a')
                        s_ = slice(*sl)
                        try:
                            child = g[s_]
                        except Exception:  # noqa
                            continue
                        cmodel = model[s_]
                        tgt, tmodel = (child, cmodel) if side == 'child' else (g, model)
                        if op[0] in ('append', 'insert', 'extend') and len(tmodel) >= MAXLEN + 1:
                            continue
                        scratch = Stats()
                        ok = spec.step(tgt, tmodel, op, scratch, (['aliasing'], [op]))
                        st.count('transitions')
                        st.count('executions')
                        if ok is False or scratch.failures:
                            continue        # the operation itself is judged by the BFS
                        other, omodel = (g, model) if side == 'child' else (child, cmodel)
                        sub = Stats()
                        spec.check(other, omodel, sub, (['aliasing'], []))
                        for f in sub.failures:
                            st.fail('operation-on-%s-grid-changed-the-%s-grid' % ('derived' if side == 'child' else 'source', 'source' if side == 'child' else 'derived'),
                                    {'op': op[0], 'index_built_before_slice': warm, 'slice': str(sl), 'what': f['symptom']},
                                    {'aliasing': True, 'root': root, 'history': [list(o) for o in hist], 'warm': warm, 'slice': list(sl), 'side': side, 'op': list(op)},
                                    f['detail'])
                            break
        st.count('states')
    return st


def run(ctx, prop):
    factory = {('C14', True): C14Quick, ('C14', False): C14Thorough, ('C15', True): C15Quick, ('C15', False): C15Thorough}[(prop, ctx.quick)]
    depth = 4 if ctx.quick else 6
    states = [(['fresh'], [])]
    st, info = H.bfs(factory, depth=depth, seed=ctx.seed, jobs=ctx.jobs, collect=states, max_states=400000)
    if info.get('capped'):
        raise HarnessError('more than 400000 distinct states (over 100 times the space on the pinned tree): hidden state the canonical key cannot merge')
    pair_states = [(r, h) for r, h in states if r[0] in ('fresh', 'fresh-unversioned') and len(h) <= (2 if ctx.quick else 3)]
    from mc.explore import pmap, chunks
    for part in pmap(aliasing_task, [(factory, c) for c in chunks(pair_states, ctx.jobs * 2)], ctx.jobs):
        st.merge(part)
    info['aliasing_states'] = len(pair_states)
    if prop == 'C15':
        st2, info2 = H.bfs(C15Numeric, depth=depth, seed=ctx.seed, jobs=ctx.jobs)
        st.merge(st2)
        info['numeric_ids'] = dict(info2, rows=C15Numeric.ROWS, lookup_keys=C15Numeric().lookup_keys())
        st3, info3 = H.bfs(C15Kinds, depth=depth, seed=ctx.seed, jobs=ctx.jobs)
        st.merge(st3)
        info['text_kind_ids'] = dict(info3, rows=C15Kinds.ROWS, lookup_keys=C15Kinds().lookup_keys())
    st.outcomes |= set(list(st.inputs)[:1000])
    spec = factory()
    return {
        'stats': st, 'exhaustive': True,
        'rule': 'explicit-state BFS (C14: 4 roots = declared 3.0, undeclared, header maps reached by relocation, declared 2.0 with content-refused rows; incl. '
                'operations from inside an iteration, index / count / contains observed in every state.  C15: three alphabets = str/int/Ref/duplicate/falsy ids, '
                '7-digit and equal-but-differently-printed numeric ids, Uri / Bin ids and keys) to depth %d: every operation of the alphabet (append, insert at -3..3, +=, extend incl. generators and '
                'lists with a non-dict in the middle, item assignment, del index/slice, pop, remove, reverse, clear, lookup by id as a '
                'state-changing read) applied to every reachable state of a real Grid of at most %d rows, and to grids derived from reached '
                'states by slicing and filtering; lock-step with a Python list of the same row objects; plus, for every state reached within 2 (3) steps, every (slice, one further operation on the source or on the derived grid) pair with the other grid re-checked against its own model; state = (row labels in order, '
                'hidden id-index content incl. stale entries); distinct = distinct canonical states' % (depth, MAXLEN),
        'coverage': {'bounds': {'rows': spec.ROWS, 'non_dict_rows': spec.NONDICT, 'max_rows': MAXLEN, 'depth': depth,
                                'lookup_keys': spec.lookup_keys(), 'info': info}},
        'assumptions': ['a multi-row extend()/+= refused part-way may leave any prefix of the new rows in the grid (only single-row '
                        'operations are pinned to leave it unchanged)',
                        'lookup oracle: rows r currently in the grid with "id" in r and str(r["id"]) == str(key); any of them if duplicated'],
    }


def replay(case, st, prop):
    if case.get('aliasing'):
        sub = aliasing_task(C14Thorough if prop == 'C14' else C15Thorough, [(case['root'], case['history'])])
        for f in sub.failures:
            if f['case']['op'] == case['op'] and f['case']['slice'] == case['slice'] and f['case']['side'] == case['side'] and f['case']['warm'] == case['warm']:
                st.fail(f['symptom'], f['sig'], f['case'], f['detail'])
        return
    spec = spec_for(prop, case['root'])
    root = case['root']
    hist = [tuple(o) for o in case['history']]
    g, model = spec.fresh(root)
    for i, op in enumerate(hist):
        last = i == len(hist) - 1
        ok = spec.step(g, model, op, st, (root, hist[:i + 1]) if last else None)
        if last and ok is not False:
            spec.check(g, model, st, (root, hist))
    if not hist:
        spec.check(g, model, st, (root, []))
