# -*- coding: utf-8 -*-
"""C07 — anything parsed can be re-dumped, transcoded and re-parsed unchanged; dump is pure,
deterministic and idempotent.

Driver A: documents = (a) every C03 ZINC document and C05 JSON document with <= d spelling
deviations (so grids carry parser-made objects: fixed-offset tzinfo, ordered metadata, non-official
version strings), (b) every catalogue payload in every slot of the round-trip skeleton, dumped by
hszinc.  Each document is pushed through all chains: same-format normalisation twice, Z->J->Z and
J->Z->J.
"""
import json

from mc.explore import Stats, explore, HarnessError, Ch, pmap, chunks, seeded_rng
from ref import neutral as N, observe as O, refzinc, refjson, catalogue as C
from props import c03, c05, rt

EXTRA = [
    N.mkgrid('2.5', [('v', ('str', 'odd version'))], [('a', []), ('b', [])], [(N.num(1.0), ('str', 'x')), (N.NULL, c03._fx(60, 2020, 6, 1, 12, 0, 0))]),
    N.mkgrid('3.0.0', [], [('a', [])], [(('list', (N.num(1.0), N.NA)),), (N.mkdict([('k', N.MARKER)]),)]),
    N.mkgrid('4.0', [('m', N.MARKER)], [('a', [])], [(('xstr', 'Foo', 'bar'),), (c03._dt('Kathmandu', 2020, 6, 1, 12, 0, 0),)]),
]
EXTRA.append(N.mkgrid('2.0', [], [('w', []), ('s', [])],
                      [(c03._fx(-480, 2020, 1, 15, 12, 0, 0), c03._fx(-480, 2020, 7, 15, 12, 0, 0)),
                       (c03._fx(570, 2020, 1, 15, 12, 0, 0), c03._fx(570, 2020, 7, 15, 12, 0, 0)),
                       (c03._fx(-600, 2020, 7, 15, 12, 0, 0), c03._fx(-600, 2020, 1, 15, 12, 0, 0)),
                       (c03._fx(630, 2020, 1, 15, 12, 0, 0), c03._fx(630, 2020, 7, 15, 12, 0, 0))]))
EXTRA.append(N.mkgrid('2.0', [], [('g', [])],
                      [(C.BY_NAME['dt:fixed-600 gap'].n,), (C.BY_NAME['dt:fixed-540 gap'].n,), (C.BY_NAME['dt:fixed-480 gap'].n,), (C.BY_NAME['dt:fixed+570 gap'].n,),
                       (('str', u'astral \U0001f321 text'),), (('uri', u'http://x/\U0001f600/y'),)]))
EXTRA.append(N.mkgrid('3.0', [], [('x', []), ('y', [])], [(('xstr', 'Hex', 'ff00'), ('xstr', 'B64', 'AAEC')), (('xstr', 'hex', b'\xff\x00'), ('ref', 'e', ''))]))
# tags named like the structural keys of the OTHER level, columns named like tags
EXTRA.append(N.mkgrid('2.0', [('name', ('str', 'grid tag called name')), ('rows', N.MARKER)], [('fw', [('ver', ('str', '1.4.2')), ('meta', N.MARKER)]), ('cols', []), ('id', [('name2', ('str', 'x'))])],
                      [(N.num(1.0), ('str', 'c'), ('ref', 'r1', 'r1')), (N.NULL, N.NULL, ('ref', 'r2', None))]))
ZBASE = list(c03.BASE) + EXTRA
JBASE = list(c05.BASE) + EXTRA


def chains(hs, text, m1, st, sig, case):
    """All chains for one document `text` in mode m1.  Returns an outcome tag."""
    Z, J = hs.MODE_ZINC, hs.MODE_JSON
    name = {Z: 'zinc', J: 'json'}

    def fail(symptom, extra, detail):
        st.fail(symptom, dict(sig, **extra), case, dict(detail, document=text[:800] if isinstance(text, str) else repr(text)[:800]))

    try:
        g0 = hs.parse(text, mode=m1)
    except Exception as e:  # noqa
        return 'first-parse-failed'       # C01/C02/C03/C05's subject, not this property's
    try:
        n0 = O.observe_grid(g0, hs)
    except Exception as e:  # noqa
        return 'unobservable'
    for m2 in (Z, J):
        step = '%s->%s' % (name[m1], name[m2])
        try:
            t1 = hs.dump(g0, mode=m2)
            t1b = hs.dump(g0, mode=m2)
        except Exception as e:  # noqa
            fail('parsed-grid-cannot-be-dumped', {'step': step, 'exc': type(e).__name__}, {'exc': repr(e)[:300]})
            return 'dump-raised'
        if t1 != t1b:
            fail('two-dumps-of-one-grid-differ', {'step': step}, {'first': t1[:400], 'second': t1b[:400]})
            return 'nondeterministic'
        try:
            n0b = O.observe_grid(g0, hs)
        except Exception as e:  # noqa
            n0b = None
        if n0b is None or N.same(n0, n0b, 'exact') or N.same(n0b, n0, 'exact'):
            fail('dump-modified-the-grid', {'step': step}, {'before': N.show(n0), 'after': N.show(n0b) if n0b else None})
            return 'mutated'
        try:
            g1 = hs.parse(t1, mode=m2)
            n1 = O.observe_grid(g1, hs)
        except Exception as e:  # noqa
            fail('own-dump-of-parsed-grid-not-parseable', {'step': step, 'exc': type(e).__name__}, {'dumped': t1[:600], 'exc': repr(e)[:300]})
            return 'reparse-raised'
        tol = 'json' if J in (m1, m2) else 'zinc'
        d = N.same(n0, n1, tol)
        if d:
            where, kinds = rt.diff_class(d)
            fail('re-parse-of-dump-differs', {'step': step, 'where': where, 'kinds': kinds}, {'dumped': t1[:600], 'first_difference': N.show(d, 400)})
            return 'differs'
        # idempotence of normalisation: dump(parse(dump(parse(x)))) == dump(parse(x))
        try:
            t2 = hs.dump(g1, mode=m2)
        except Exception as e:  # noqa
            fail('parsed-grid-cannot-be-dumped', {'step': step + '->' + name[m2], 'exc': type(e).__name__}, {'exc': repr(e)[:300]})
            return 'dump-raised'
        if t2 != t1:
            fail('normalisation-not-idempotent', {'step': step}, {'once': t1[:600], 'twice': t2[:600]})
            return 'not-idempotent'
        # transcode and come back
        m3 = J if m2 == Z else Z
        try:
            t3 = hs.dump(g1, mode=m3)
            g3 = hs.parse(t3, mode=m3)
            t4 = hs.dump(g3, mode=m2)
            g4 = hs.parse(t4, mode=m2)
            n4 = O.observe_grid(g4, hs)
        except Exception as e:  # noqa
            fail('transcoding-chain-raised', {'step': '%s->%s->%s' % (step, name[m3], name[m2]), 'exc': type(e).__name__}, {'exc': repr(e)[:300]})
            return 'chain-raised'
        d = N.same(n0, n4, 'json')
        if d:
            where, kinds = rt.diff_class(d)
            fail('transcoding-chain-lossy', {'step': '%s->%s->%s' % (step, name[m3], name[m2]), 'where': where, 'kinds': kinds},
                 {'first_difference': N.show(d, 400), 'via': t3[:400]})
            return 'lossy'
    return 'ok'


def run_doc(ch, st, fmt, bi):
    import hszinc as hs
    if fmt == 'zinc':
        text = refzinc.Writer(ch.choose).document([ZBASE[bi]])
        m1 = hs.MODE_ZINC
    else:
        text = json.dumps(refjson.write([JBASE[bi]], ch.choose, array=False))
        m1 = hs.MODE_JSON
    devs = sorted(ch.used)
    classes = sorted(set(c03._label_class(l) for l in devs))
    sig = {'source': fmt, 'spellings': '|'.join(classes) or '-'}
    case = {'kind': 'doc', 'fmt': fmt, 'base': bi, 'ov': dict(ch.ov)}
    out = chains(hs, text, m1, st, sig, case)
    if out in ('first-parse-failed', 'unobservable'):
        st.skip(out)
    st.case((fmt, bi, tuple(sorted(ch.ov.items()))), nontrivial=True, outcome=(out, fmt, bi),
            sample={'source': fmt, 'base_grid': bi, 'deviations': devs, 'document': text[:160], 'outcome': out})


def payload_task(items):
    """(b): catalogue payloads in skeleton slots, dumped by hszinc, then all chains."""
    import hszinc as hs
    st = Stats()
    for ver, slot, name, fmt in items:
        e = C.BY_NAME[name]
        slots = rt.slots_for(ver)
        ents = {s: (e if s == slot else rt.DEFAULT) for s in slots}
        st.count('executions')
        st.count('states')
        st.count('transitions')
        try:
            objs = {s: O.build(ents[s].n, hs, ents[s].hint) for s in slots}
            g = rt.assemble(hs, ver, objs, False)
            mode = hs.MODE_ZINC if fmt == 'zinc' else hs.MODE_JSON
            text = hs.dump(g, mode=mode)
        except Exception:  # noqa
            st.skip('value cannot be dumped (C01/C02/C17 subject)')
            continue
        sig = {'source': fmt + '-by-hszinc', 'ver': ver, 'payloads': name, 'kinds': e.n[0]}
        case = {'kind': 'payload', 'ver': ver, 'slot': slot, 'payload': name, 'fmt': fmt}
        out = chains(hs, text, mode, st, sig, case)
        if out in ('first-parse-failed', 'unobservable'):
            st.skip(out)
        st.case((ver, slot, name, fmt), outcome=(out, e.n[0]))
    return st


def run(ctx):
    from ref import selftest
    selftest.quick_selftest()
    st = Stats()
    d = 1 if ctx.quick else 2
    bounds = []
    for fmt, base in (('zinc', ZBASE), ('json', JBASE)):
        for bi in range(len(base)):
            dd = d if not (ctx.quick and fmt == 'zinc' and bi in (4, 5)) else 0
            before = st.c.get('executions', 0)
            explore(__name__, 'run_doc', dd, ctx.seed, ctx.jobs, st, args=(fmt, bi))
            bounds.append({'source': fmt, 'base_grid': bi, 'max_deviations': dd, 'documents': st.c.get('executions', 0) - before})
    items = []
    for ver in ('2.0', '3.0'):
        full, reps = C.for_version(ver), C.for_version(ver, reduced=True)
        slots = rt.slots_for(ver) if not ctx.quick else ['cell0', 'gmeta'] + (['lelem', 'ncell'] if ver == '3.0' else [])
        for slot in slots:
            cat = full if (not ctx.quick or slot == 'cell0') else reps
            for e in cat:
                for fmt in ('zinc', 'json'):
                    items.append((ver, slot, e.name, fmt))
    seeded_rng(ctx.seed, 'c07').shuffle(items)
    for part in pmap(payload_task, [(c,) for c in chunks(items, ctx.jobs * 4)], ctx.jobs):
        st.merge(part)
    return {
        'stats': st, 'exhaustive': True,
        'rule': '(a) every document of the C03/C05 writers with <= max_deviations spelling deviations per base grid (incl. grids declared 2.5, '
                '3.0.0, 4.0), (b) every (version, slot, catalogue payload, source format) of the round-trip skeleton dumped by hszinc; each '
                'document goes through: dump twice (determinism), observe before/after (purity), re-parse (equality), dump again (idempotence), '
                'transcode to the other format and back (losslessness) for both target formats',
        'coverage': {'bounds': {'documents': bounds, 'payload_cases': len(items)}},
        'assumptions': ['documents whose FIRST parse fails are skipped here: that is C01/C02/C03/C05\'s subject'],
    }


def replay(case, st):
    if case['kind'] == 'doc':
        ch = Ch(case['ov'])
        run_doc(ch, st, case['fmt'], case['base'])
        ch.check_used()
    else:
        st.merge(payload_task([(case['ver'], case['slot'], case['payload'], case['fmt'])]))
