# -*- coding: utf-8 -*-
"""C13 — a filter's result is independent of other filters, earlier or concurrent.

Driver C (schedules): 2 and 3 real threads, each compiling and evaluating its own filter twice on a
shared grid through the real Grid.filter, under a deterministic line-granularity scheduler; ALL
interleavings up to a preemption bound are enumerated, followed by a sequential post-phase that
re-evaluates every filter and every function object obtained earlier.
Driver B (histories): with the compiled-filter cache reduced to capacity 1 and 2, every request
sequence of length <= L over 4 filters; with the real capacity, the boundary histories around 500.
"""
import functools
import gc
import itertools
import sys
import threading

from mc.explore import Stats, pmap, chunks, seeded_rng, HarnessError
from mc import sched
from ref import neutral as N, reffilter as RF

MK = N.MARKER
FILTERS = ['a', 'b and not a', 'c or a', 'not c']
ASTS = {'a': ('has', ('a',)), 'b and not a': ('and', ('has', ('b',)), ('not', ('a',))), 'c or a': ('or', ('has', ('c',)), ('has', ('a',))),
        'not c': ('not', ('c',))}
# two filters whose string / URI literals hold escapes: compiling them runs the shared literal decoders of the ZINC grammar
ESC_A, ESC_B = 'd == "A\\tone\\ttwo"', 'd == "B\\nxx\\nyy\\nzz"'
ESC_U, ESC_V = 'u == `a\\:b\\/c`', 'u == `x\\?y\\&z`'
ASTS[ESC_A] = ('cmp', '==', ('d',), ('str', 'A\tone\ttwo'))
ASTS[ESC_B] = ('cmp', '==', ('d',), ('str', 'B\nxx\nyy\nzz'))
ASTS[ESC_U] = ('cmp', '==', ('u',), ('uri', 'a:b/c'))
ASTS[ESC_V] = ('cmp', '==', ('u',), ('uri', 'x?y&z'))
# two filters that follow references: their EVALUATION walks the shared grid (id index, reference targets) row by row
REF_A, REF_B = 'r->a', 'r->b and not a'
ASTS[REF_A] = ('has', ('r', 'a'))
ASTS[REF_B] = ('and', ('has', ('r', 'b')), ('not', ('a',)))
SKIP_FUNCS = ('<lambda>', '_get_path', '_generate_filter_in_python', 'to_dict', '<module>', '<listcomp>', '<genexpr>')


def rows_neutral():
    rows = []
    for bits in itertools.product((False, True), repeat=3):
        r = {'id': ('str', 'r' + ''.join('1' if b else '0' for b in bits))}
        for t, b in zip('abc', bits):
            if b:
                r[t] = MK
        rows.append(r)
    rows[0]['d'], rows[1]['d'], rows[2]['d'] = ('str', 'A\tone\ttwo'), ('str', 'B\nxx\nyy\nzz'), ('str', 'B\nxx')
    rows[3]['u'], rows[4]['u'] = ('uri', 'a:b/c'), ('uri', 'x?y&z')
    rows[5]['r'], rows[6]['r'], rows[7]['r'], rows[1]['r'] = ('ref', 'r100', None), ('ref', 'r011', None), ('ref', 'nowhere', None), ('ref', 'r110', 'a display name')
    return rows


ROWS = rows_neutral()
EXPECTED = {f: tuple(r['id'][1] for r in ROWS if RF.evaluate(ASTS[f], r, ROWS) is True) for f in ASTS}


def mkgrid(hs):
    g = hs.Grid(version='3.0', columns=[('id', []), ('a', []), ('b', []), ('c', []), ('d', []), ('u', []), ('r', [])])
    for r in ROWS:
        g.append({k: (v[1] if v[0] == 'str' else (hs.Uri(v[1]) if v[0] == 'uri' else (hs.Ref(v[1], v[2]) if v[0] == 'ref' else hs.MARKER))) for k, v in r.items()})
    return g


def traced(code):
    fn = code.co_filename
    if fn.endswith('hszinc/grid_filter.py'):
        return code.co_name not in SKIP_FUNCS
    if fn.endswith('hszinc/grid.py'):
        return code.co_name == 'filter'
    if fn.endswith('hszinc/zincparser.py'):
        # the literal decoders the filter grammar shares with the ZINC reader (named functions and methods; parse-action lambdas
        # are single expressions)
        return code.co_name not in ('<lambda>', '<module>', '<listcomp>', '<genexpr>', '<dictcomp>')
    return False


_PRISTINE = {}


def _simple(v):
    return v is None or isinstance(v, (bool, int, float, str, bytes, tuple, frozenset))


def restore_module_state(gf):
    """Every execution starts from the module state hszinc has right after import: module-level variables that hold
    plain values are put back, module-level containers that were empty at import are emptied again (the compiled-filter
    cache and the name counter are handled separately).  Whatever survives this and still changes behaviour makes the
    execution irreproducible, which is reported as a violation."""
    if 'snap' not in _PRISTINE:
        import importlib
        import sys as _sys
        import types
        fresh = {}
        # import-time values: read them from a second, private import of the module source
        spec = importlib.util.spec_from_file_location('hszinc._verif_pristine_grid_filter', gf.__file__,
                                                      submodule_search_locations=None)
        mod = importlib.util.module_from_spec(spec)
        mod.__package__ = 'hszinc'
        try:
            spec.loader.exec_module(mod)
            for k, v in vars(mod).items():
                if k.startswith('__') or k.startswith('_gen_hsfilter_'):
                    continue
                if _simple(v) or (isinstance(v, (dict, set, list)) and len(v) == 0):
                    fresh[k] = v
        except Exception:  # noqa
            fresh = {}
        _PRISTINE['snap'] = fresh
    for k, v in _PRISTINE['snap'].items():
        cur = getattr(gf, k, None)
        if _simple(v):
            if cur is not v and cur != v or type(cur) is not type(v):
                setattr(gf, k, v)
        elif isinstance(cur, (dict, set, list)):
            cur.clear()
    for obj in list(vars(gf).values()):
        if isinstance(obj, type) and obj.__module__ == gf.__name__:
            for k, v in list(vars(obj).items()):
                if isinstance(v, (dict, set, list)) and not k.startswith('__'):
                    v.clear()


def reset(gf, capacity):
    """Fresh shared state before one execution (refcount-driven finalisers run here, deterministically)."""
    restore_module_state(gf)
    fn = gf._filter_function
    inner = getattr(fn, '__wrapped__', None)
    real = getattr(gf, 'FILTER_CACHE_LRU_SIZE', None)
    used = 'real'
    if hasattr(fn, 'cache_clear'):
        fn.cache_clear()
    # any further memo the module may keep (functools caches, class-level scratch dicts) is shared state the property is
    # about: it is cleared between executions so that every execution, and every replay, starts from the same state
    for name, val in list(vars(gf).items()):
        if val is fn:
            continue
        if callable(getattr(val, 'cache_clear', None)) and hasattr(val, '__wrapped__'):
            try:
                val.cache_clear()
            except Exception:  # noqa
                pass
    if capacity is not None and inner is not None:
        gf._filter_function = functools.lru_cache(maxsize=capacity)(inner)
        used = capacity
    elif inner is not None and hasattr(fn, 'cache_parameters') and fn.cache_parameters().get('maxsize') != real and real is not None:
        gf._filter_function = functools.lru_cache(maxsize=real)(inner)
    if isinstance(getattr(gf, '_id_function', None), int):
        gf._id_function = 0
    return used


def install_locks(gf, s):
    """Replace real locks held in the module's globals by scheduler-aware ones."""
    lock_types = (type(threading.Lock()), type(threading.RLock()))
    replaced = {}
    for name, val in list(vars(gf).items()):
        if isinstance(val, lock_types):
            replaced[name] = val
            setattr(gf, name, sched.SchedLock(s, reentrant=isinstance(val, type(threading.RLock()))))
    return replaced


def one_execution(prefix, plan, capacity, calls=2):
    """Run one schedule.  plan = list of filter texts, one per thread; every thread evaluates its filter `calls` times and then
    fetches the compiled function.  -> (scheduler, observation, problems)"""
    import hszinc as hs
    from hszinc import grid_filter as gf
    gc.disable()
    used_capacity = reset(gf, capacity)
    g = mkgrid(hs)
    results = [[] for _ in plan]
    held = [[] for _ in plan]
    unraisable = []
    old_hook = sys.unraisablehook
    sys.unraisablehook = lambda u: unraisable.append(type(u.exc_value).__name__)

    def body(i):
        def run():
            f = plan[i]
            for rep in range(calls):
                res = g.filter(f)
                results[i].append(tuple(r['id'] for r in res))
            held[i].append(gf.filter_function(f))
        return run

    s = sched.Scheduler([body(i) for i in range(len(plan))], traced, prefix)
    replaced = install_locks(gf, s)
    problems = []
    try:
        try:
            s.run()
        except sched.Deadlock as e:
            problems.append(('deadlock', str(e)[:120]))
    finally:
        for name, val in replaced.items():
            setattr(gf, name, val)
    post = []
    if not problems:
        for i, f in enumerate(plan):
            if s.errors[i] is not None:
                problems.append(('thread-raised', '%s in thread %d (%s)' % (type(s.errors[i]).__name__, i, f)))
        for f in sorted(set(plan)):
            try:
                post.append((f, tuple(r['id'] for r in g.filter(f))))
            except BaseException as e:  # noqa
                post.append((f, 'raised:' + type(e).__name__))
        for i, f in enumerate(plan):
            for fn in held[i]:
                try:
                    got = tuple(r['id'] for r in g if fn(g, r))
                except BaseException as e:  # noqa
                    got = 'raised:' + type(e).__name__
                post.append(('held:' + f, got))
    sys.unraisablehook = old_hook
    for i, f in enumerate(plan):
        for k, got in enumerate(results[i]):
            if got != EXPECTED[f]:
                problems.append(('wrong-rows-in-thread', 'thread %d call %d filter %r: %r != %r' % (i, k, f, got, EXPECTED[f])))
    for f, got in post:
        key = f[5:] if f.startswith('held:') else f
        if got != EXPECTED[key]:
            problems.append(('wrong-rows-after-concurrent-compilation' if not f.startswith('held:') else 'previously-obtained-function-broken',
                             '%s: %r != %r' % (f, got, EXPECTED[key])))
    if unraisable:
        problems.append(('exception-in-finaliser', ','.join(sorted(set(unraisable)))))
    obs = (tuple(tuple(r) for r in results), tuple(post), tuple(unraisable))
    gc.enable()
    return s, obs, problems, used_capacity


def schedule_task(plan, capacity, bound, prefixes, budget, calls=2):
    """Explore the subtrees below the given schedule prefixes (at most `budget` executions; the rest is
    handed back for re-sharding)."""
    st = Stats()
    shape = '%d-threads/%s' % (len(plan), 'same-filter' if len(set(plan)) < len(plan) else 'distinct-filters')

    def make_run(prefix):
        try:
            s, obs, problems, used = one_execution(prefix, plan, capacity, calls)
        except HarnessError as e:
            if 'diverged' not in str(e):
                raise
            # a prefix recorded in one execution cannot be followed in another although both start from a clean state
            st.fail('execution-not-reproducible-from-a-clean-state', {'shape': shape, 'capacity': str(capacity or 'real'), 'preemptions': -1},
                    {'kind': 'schedule', 'plan': plan, 'capacity': capacity, 'calls': calls, 'schedule': list(prefix)}, {'what': str(e)[:200]})
            s, obs, problems, used = one_execution([], plan, capacity, calls)
            s.points, s.choices = s.points[:0], s.choices[:0]
            return s, obs
        st.case((tuple(plan), capacity, calls, tuple(s.choices)), nontrivial=any(c != 0 for c in s.choices), outcome=obs,
                sample={'threads': plan, 'schedule': list(s.choices)[:60], 'preemptions': s.preemptions_before(len(s.choices))} if any(s.choices) else None)
        if problems:
            # determinism obligation: the same schedule must fail the same way twice
            try:
                s2, obs2, problems2, _ = one_execution(list(s.choices), plan, capacity, calls)
                same = obs2 == obs and [p[0] for p in problems2] == [p[0] for p in problems]
            except HarnessError:
                same = False
            if not same:
                # the harness restores everything it knows about; state that survives and changes behaviour IS the property's subject
                problems = [('execution-not-reproducible-from-a-clean-state', 'the same schedule behaves differently when run again: %r' % (problems[:1],))]
            for sym, text in problems[:2]:
                st.fail(sym, {'shape': shape, 'capacity': str(used), 'preemptions': s.preemptions_before(len(s.choices))},
                        {'kind': 'schedule', 'plan': plan, 'capacity': capacity, 'calls': calls, 'schedule': list(s.choices)}, {'what': text})
        return s, obs

    left = sched.explore_schedules(make_run, bound, st, prefixes, budget)
    return st, (plan, capacity, bound, left, calls)


def explore_plan_set(plans, ctx, st):
    """Rounds of budgeted subtree exploration: unexplored subtree roots are re-sharded until none is left."""
    work = [(plan, cap, bound, [[]], calls) for plan, cap, bound, calls in plans]
    rounds = 0
    while work:
        rounds += 1
        tasks = []
        for plan, cap, bound, prefixes, calls in work:
            for c in chunks(prefixes, max(1, min(len(prefixes), ctx.jobs * 2))):
                tasks.append((plan, cap, bound, c, 1 if rounds == 1 else max(40, min(400, len(c) // 4)), calls))
        seeded_rng(ctx.seed, 'c13/%d' % rounds).shuffle(tasks)
        work = []
        for part, (plan, cap, bound, left, calls) in pmap(schedule_task, tasks, ctx.jobs):
            st.merge(part)
            if left:
                work.append((plan, cap, bound, left, calls))
        if rounds > 10000:
            raise HarnessError('schedule exploration does not converge')
    return rounds


# ---- cache histories -------------------------------------------------------------------------------

def history_task(seqs, capacity):
    import hszinc as hs
    from hszinc import grid_filter as gf
    st = Stats()
    for seq in seqs:
        gc.disable()
        used = reset(gf, capacity)
        g = mkgrid(hs)
        held = []
        unraisable = []
        old = sys.unraisablehook
        sys.unraisablehook = lambda u: unraisable.append(type(u.exc_value).__name__)
        problems = []
        for step, fi in enumerate(seq):
            f = FILTERS[fi]
            st.count('transitions')
            try:
                got = tuple(r['id'] for r in g.filter(f))
                held.append((f, gf.filter_function(f)))
            except BaseException as e:  # noqa
                got = 'raised:' + type(e).__name__
            if got != EXPECTED[f]:
                problems.append(('wrong-rows-after-eviction-history', 'step %d filter %r: %r' % (step, f, got)))
                break
            for hf, fn in held:
                try:
                    hg = tuple(r['id'] for r in g if fn(g, r))
                except BaseException as e:  # noqa
                    hg = 'raised:' + type(e).__name__
                if hg != EXPECTED[hf]:
                    problems.append(('previously-obtained-function-broken', 'after step %d, function for %r: %r' % (step, hf, hg)))
                    break
            if problems:
                break
        sys.unraisablehook = old
        gc.enable()
        if unraisable:
            problems.append(('exception-in-finaliser', ','.join(sorted(set(unraisable)))))
        st.count('executions')
        st.count('states', len(seq))
        st.case(('hist', capacity, tuple(seq)), nontrivial=len(set(seq)) > 1, outcome=('hist', bool(problems)))
        for sym, text in problems[:1]:
            st.fail(sym, {'shape': 'history', 'capacity': str(used)}, {'kind': 'history', 'capacity': capacity, 'seq': list(seq)}, {'what': text})
    if seqs:
        st.samples.append({'cache_capacity': capacity, 'request_sequence': [FILTERS[i] for i in seqs[0]]})
    return st


# Filters whose texts differ only in the KIND of their literal (or in blanks / redundant parentheses): any memo keyed on a
# lossy rendering of the filter makes one of them run the other's code.
FAMILY = [
    ('x == 75', ('cmp', '==', ('x',), N.num(75.0))), ('x == "75.0"', ('cmp', '==', ('x',), ('str', '75.0'))), ('x == "75"', ('cmp', '==', ('x',), ('str', '75'))),
    ('x == 2020-01-01', ('cmp', '==', ('x',), ('date', 2020, 1, 1))), ('x == "2020-01-01"', ('cmp', '==', ('x',), ('str', '2020-01-01'))),
    ('x == @s1', ('cmp', '==', ('x',), ('ref', 's1', None))), ('x == "@s1"', ('cmp', '==', ('x',), ('str', '@s1'))), ('x == "s1"', ('cmp', '==', ('x',), ('str', 's1'))),
    ('x == true', ('cmp', '==', ('x',), ('bool', True))), ('x == "True"', ('cmp', '==', ('x',), ('str', 'True'))), ('x == "true"', ('cmp', '==', ('x',), ('str', 'true'))),
    ('x == `u`', ('cmp', '==', ('x',), ('uri', 'u'))), ('x == "u"', ('cmp', '==', ('x',), ('str', 'u'))),
    ('x == 12:00:00', ('cmp', '==', ('x',), ('time', 12, 0, 0, 0))), ('x == "12:00:00"', ('cmp', '==', ('x',), ('str', '12:00:00'))),
    ('x  ==  75', ('cmp', '==', ('x',), N.num(75.0))), ('(x == 75)', ('cmp', '==', ('x',), N.num(75.0))),
    ('x == "a  b"', ('cmp', '==', ('x',), ('str', 'a  b'))), ('x == "a b"', ('cmp', '==', ('x',), ('str', 'a b'))),
    ('x', ('has', ('x',))), ('not x', ('not', ('x',))),
    ('x > 5kg', ('cmp', '>', ('x',), N.num(5.0, 'kg'))), ('x > 5m', ('cmp', '>', ('x',), N.num(5.0, 'm'))), ('x == 6kg', ('cmp', '==', ('x',), N.num(6.0, 'kg'))),
    ('x != 6kg', ('cmp', '!=', ('x',), N.num(6.0, 'kg'))), ('x < 2021-01-01T00:00:00Z UTC', ('cmp', '<', ('x',), ('dt', 1609459200000000, 0, 'UTC'))),
]
FAMILY_VALUES = [N.num(7.0, 'm'), N.num(6.0, 'kg'), N.num(7.0, 'kg'), N.num(4.0, 'm'), ('dt', 1577836800000000, 0, 'UTC'), ('dt', 1640995200000000, 3600, None), N.num(75.0), ('str', '75.0'), ('str', '75'), ('date', 2020, 1, 1), ('str', '2020-01-01'), ('ref', 's1', None), ('str', '@s1'), ('str', 's1'),
                 ('bool', True), ('str', 'True'), ('str', 'true'), ('uri', 'u'), ('str', 'u'), ('time', 12, 0, 0, 0), ('str', '12:00:00'), ('str', 'a  b'), ('str', 'a b')]


def family_task(seqs):
    """Every listed order of near-colliding filters on one grid, in one process state."""
    import hszinc as hs
    from hszinc import grid_filter as gf
    from ref import observe as O
    st = Stats()
    rows = [{'id': ('str', 'v%d' % i), 'x': v} for i, v in enumerate(FAMILY_VALUES)] + [{'id': ('str', 'none')}]
    expected, unpinned = {}, {}
    for text, ast in FAMILY:
        expected[text] = tuple(r['id'][1] for r in rows if RF.evaluate(ast, r, rows) is True)
        unpinned[text] = set(r['id'][1] for r in rows if RF.evaluate(ast, r, rows) is None)   # three-valued oracle: don't-care rows
    for seq in seqs:
        gc.disable()
        reset(gf, None)
        g = hs.Grid(version='3.0', columns=[('id', []), ('x', [])])
        for r in rows:
            g.append({k: O.build(v, hs) for k, v in r.items()})
        problem = None
        for step, fi in enumerate(seq):
            text = FAMILY[fi][0]
            st.count('transitions')
            try:
                got = tuple(r['id'] for r in g.filter(text))
            except BaseException as e:  # noqa
                got = 'raised:' + type(e).__name__
            if not isinstance(got, tuple) or tuple(x for x in got if x not in unpinned[text]) != expected[text]:
                problem = 'step %d filter %r after %r: %r != %r' % (step, text, [FAMILY[i][0] for i in seq[:step]], got, expected[text])
                break
        gc.enable()
        st.count('executions')
        st.count('states', len(seq))
        st.case(('family', tuple(seq)), nontrivial=True, outcome=('family', bool(problem)))
        if problem:
            st.fail('filter-result-depends-on-filters-used-earlier', {'shape': 'near-collision-family', 'second': FAMILY[seq[-1]][0] if len(seq) > 1 else '-'},
                    {'kind': 'family', 'seq': list(seq)}, {'what': problem})
    if seqs:
        st.samples.append({'near_collision_sequence': [FAMILY[i][0] for i in seqs[0]]})
    return st


# ---- histories in which the DATA changes between evaluations ------------------------------------------------
# Filters that follow references are evaluated, the grid's rows are replaced / mutated / the grid is swapped for another
# one of the same size, and the same filters are evaluated again: each answer is the one the reference evaluator gives for
# the rows the grid holds NOW, whatever was evaluated on whatever earlier state.
GS_FILTERS = [('siteRef->area == 10', ('cmp', '==', ('siteRef', 'area'), N.num(10.0))),
              ('siteRef->area', ('has', ('siteRef', 'area'))),
              ('siteRef->area == 20 or area == 30', ('or', ('cmp', '==', ('siteRef', 'area'), N.num(20.0)), ('cmp', '==', ('area',), N.num(30.0))))]
GS_EVENTS = ['F0', 'F1', 'F2', 'replace-target-row', 'replace-source-row', 'delete-and-append', 'mutate-row-in-place', 'other-grid', 'drop-target-tag',
             'append-rows']


def _gs_rows(variant=0):
    ref = lambda n, d: ('ref', n, d)  # noqa: E731
    rows = [{'id': ref('e1', 'Equip 1'), 'siteRef': ref('s1', None), 'equip': MK},
            {'id': ref('s1', 'Site 1'), 'area': N.num(10.0)},
            {'id': ref('s2', 'Site 2'), 'area': N.num(20.0)}]
    if variant == 1:
        rows = [{'id': ref('e1', 'Equip 1'), 'siteRef': ref('s2', None), 'equip': MK},
                {'id': ref('s1', 'Site 1'), 'area': N.num(20.0)},
                {'id': ref('s2', 'Site 2')}]
    return rows


def gridstate_task(seqs):
    import hszinc as hs
    from hszinc import grid_filter as gf
    from ref import observe as O
    st = Stats()

    def mk(rows):
        g = hs.Grid(version='3.0', columns=[('id', []), ('siteRef', []), ('area', []), ('equip', [])])
        for r in rows:
            g.append({k: O.build(v, hs) for k, v in r.items()})
        return g
    for seq in seqs:
        gc.disable()
        reset(gf, None)
        rows = _gs_rows()
        g = mk(rows)
        problem = None
        for step, ei in enumerate(seq):
            ev = GS_EVENTS[ei]
            st.count('transitions')
            if ev.startswith('F'):
                text, ast = GS_FILTERS[int(ev[1])]
                want = tuple(r['id'][1] for r in rows if RF.evaluate(ast, r, rows) is True)
                try:
                    got = tuple(r['id'].name for r in g.filter(text))
                except BaseException as e:  # noqa
                    got = 'raised:' + type(e).__name__
                if got != want:
                    problem = 'step %d: %r after %r answered %r, the rows now in the grid give %r' % (step, text, [GS_EVENTS[i] for i in seq[:step]], got, want)
                    break
                continue
            if ev == 'replace-target-row':
                i = next((k for k, r in enumerate(rows) if r['id'][1] == 's1'), None)
                if i is None:
                    continue
                rows[i] = {'id': ('ref', 's1', 'Site 1'), 'area': N.num(20.0 if rows[i].get('area') != N.num(20.0) else 10.0)}
                g[i] = {k: O.build(v, hs) for k, v in rows[i].items()}
            elif ev == 'replace-source-row':
                cur = rows[0]['siteRef'][1]
                rows[0] = {'id': ('ref', 'e1', 'Equip 1'), 'siteRef': ('ref', 's2' if cur == 's1' else 's1', None), 'equip': MK}
                g[0] = {k: O.build(v, hs) for k, v in rows[0].items()}
            elif ev == 'delete-and-append':
                last = rows[-1]
                new = {'id': last['id'], 'area': N.num(30.0 if last.get('area') != N.num(30.0) else 20.0)}
                del rows[-1]
                del g[-1]
                rows.append(new)
                g.append({k: O.build(v, hs) for k, v in new.items()})
            elif ev == 'mutate-row-in-place':
                i = next((k for k, r in enumerate(rows) if r['id'][1] == 's1'), None)
                if i is None:
                    continue
                nv = 30.0 if rows[i].get('area') != N.num(30.0) else 10.0
                rows[i] = dict(rows[i], area=N.num(nv))
                g[i]['area'] = nv
            elif ev == 'drop-target-tag':
                i = next((k for k, r in enumerate(rows) if r['id'][1] == 's2'), None)
                if i is None or 'area' not in rows[i]:
                    continue
                rows[i] = {k: v for k, v in rows[i].items() if k != 'area'}
                del g[i]['area']
            elif ev == 'append-rows':
                # the grid grows: a new target and a new row that refers to it
                if any(r['id'][1] == 's3' for r in rows) or len(rows) > 5:
                    continue
                for new in ({'id': ('ref', 's3', 'Site 3'), 'area': N.num(10.0)}, {'id': ('ref', 'e2', 'Equip 2'), 'siteRef': ('ref', 's3', None)}):
                    rows.append(new)
                    g.append({k: O.build(v, hs) for k, v in new.items()})
            elif ev == 'other-grid':
                # the grid in use is dropped and another one of the same size takes its place (possibly at the same address)
                variant = 1 if rows[0]['siteRef'][1] == 's1' else 0
                rows = _gs_rows(variant)
                g = None
                g = mk(rows)
        gc.enable()
        st.count('executions')
        st.count('states', len(seq))
        st.case(('gridstate', tuple(seq)), nontrivial=len(set(seq)) > 1, outcome=('gridstate', bool(problem)))
        if problem:
            st.fail('filter-result-reflects-an-earlier-state-of-the-data', {'shape': 'data-history', 'last': GS_EVENTS[seq[-1]] if len(seq) else '-',
                                                                            'before': GS_EVENTS[seq[step - 1]] if step else '-'},
                    {'kind': 'gridstate', 'seq': list(seq)}, {'what': problem})
    if seqs:
        st.samples.append({'data_history': [GS_EVENTS[i] for i in seqs[0]]})
    return st


def thread_lifetime_history(n):
    """Filters compiled by short-lived threads whose lifetimes do not overlap (each is joined before the next starts), then
    re-used from the main thread: the result of a filter is independent of which thread compiled which filter earlier."""
    import threading
    import hszinc as hs
    from hszinc import grid_filter as gf
    st = Stats()
    gc.disable()
    reset(gf, None)
    g = hs.Grid(version='3.0', columns=[('id', []), ('n', [])])
    for i in range(n + 2):
        g.append({'id': 'r%d' % i, 'n': float(i)})
    rows = list(g)
    problem = None
    errors = []
    fns = {}

    def work(i):
        try:
            fn = gf.filter_function('n == %d' % i)
            fns[i] = fn
            if not (fn(g, rows[i]) is True and fn(g, rows[i + 1]) is False):
                errors.append('filter n == %d wrong in its own thread' % i)
            if [r['id'] for r in g.filter('n == %d' % i)] != ['r%d' % i]:
                errors.append('Grid.filter n == %d wrong in its own thread' % i)
        except BaseException as e:  # noqa
            errors.append('thread %d raised %s' % (i, type(e).__name__))
    for lap in range(2):
        for i in range(n):
            t = threading.Thread(target=work, args=(i,))
            t.start()
            t.join()
            st.count('transitions')
        for i in range(n):
            try:
                ok = [r['id'] for r in g.filter('n == %d' % i)] == ['r%d' % i] and fns[i](g, rows[i]) is True and fns[i](g, rows[i + 1]) is False
            except BaseException as e:  # noqa
                ok = False
                errors.append('main thread: n == %d raised %s' % (i, type(e).__name__))
            if not ok and not problem:
                problem = 'filter n == %d, compiled by an earlier short-lived thread, answers with other rows (lap %d)' % (i, lap)
    if errors and not problem:
        problem = errors[0]
    gc.enable()
    st.count('executions')
    st.count('states', n * 2)
    st.case(('thread-lifetimes', n), outcome=('thread-lifetimes', bool(problem)))
    if problem:
        st.fail('wrong-rows-after-filters-compiled-by-earlier-threads', {'shape': 'thread-lifetimes', 'capacity': 'real'},
                {'kind': 'thread-lifetimes', 'n': n}, {'what': problem})
    reset(gf, None)
    return st


def huge_cache_history(n):
    """n distinct filters alive at the same time (the cache capacity is RAISED above n, the mirror image of shrinking it to
    1 or 2): whatever identifies a compiled filter inside the library must tell all of them apart.  Thorough tier only."""
    import hszinc as hs
    from hszinc import grid_filter as gf
    st = Stats()
    gc.disable()
    used = reset(gf, n + 10)
    g = hs.Grid(version='3.0', columns=[('id', []), ('n', [])])
    g.append({'id': 'a', 'n': 1.0})
    unraisable = []
    old = sys.unraisablehook
    sys.unraisablehook = lambda u: unraisable.append(type(u.exc_value).__name__)
    problem = None
    fns = []
    try:
        for i in range(n):
            fns.append(gf.filter_function('n == %d' % i))
            st.count('transitions')
        for i, fn in enumerate(fns):
            if not (fn(g, {'n': float(i)}) is True and fn(g, {'n': float(i + 1)}) is False):
                problem = 'with %d filters alive, the function for n == %d answers as another filter' % (n, i)
                break
    except BaseException as e:  # noqa
        problem = 'raised %s' % type(e).__name__
    del fns
    reset(gf, None)
    sys.unraisablehook = old
    gc.enable()
    if unraisable and not problem:
        problem = 'exception ignored in finaliser: ' + ','.join(sorted(set(unraisable)))
    st.count('executions')
    st.count('states', n)
    st.case(('huge', n), outcome=('huge', bool(problem)))
    if problem:
        st.fail('wrong-rows-with-many-filters-alive', {'shape': 'huge-cache', 'capacity': str(used)}, {'kind': 'huge-cache', 'n': n}, {'what': problem})
    return st


def long_history(kind, n, laps):
    """Boundary histories with the real cache capacity: individual long runs, not exhaustive."""
    import hszinc as hs
    from hszinc import grid_filter as gf
    st = Stats()
    gc.disable()
    reset(gf, None)
    g = hs.Grid(version='3.0', columns=[('id', []), ('n', [])])
    for i in range(n + 2):
        g.append({'id': 'r%d' % i, 'n': float(i)})
    rows = list(g)
    unraisable = []
    old = sys.unraisablehook
    sys.unraisablehook = lambda u: unraisable.append(type(u.exc_value).__name__)
    held = {}
    problem = None
    order = list(range(n))
    for lap in range(laps):
        seq = order if kind != 'hot-cold' else [x for i in order for x in (0, i)]
        for i in seq:
            f = 'n == %d' % i
            st.count('transitions')
            try:
                fn = gf.filter_function(f)
                ok = fn(g, rows[i]) is True and fn(g, rows[i + 1]) is False
            except BaseException as e:  # noqa
                ok, fn = False, None
                problem = 'lap %d filter %r raised %s' % (lap, f, type(e).__name__)
            if not ok and not problem:
                problem = 'lap %d filter %r evaluated with other code' % (lap, f)
            if i % 97 == 0 and fn is not None:
                held[i] = fn
            if problem:
                break
        if problem:
            break
    if not problem:
        for i, fn in held.items():
            try:
                if not (fn(g, rows[i]) is True and fn(g, rows[i + 1]) is False):
                    problem = 'function for filter n == %d obtained earlier no longer answers correctly' % i
                    break
            except BaseException as e:  # noqa
                problem = 'function for filter n == %d obtained earlier raised %s' % (i, type(e).__name__)
                break
    sys.unraisablehook = old
    gc.enable()
    if unraisable and not problem:
        problem = 'exception ignored in finaliser: ' + ','.join(sorted(set(unraisable)))
    st.count('executions')
    st.count('states', n * laps)
    st.case(('long', kind, n, laps), outcome=('long', bool(problem)))
    if problem:
        st.fail('wrong-rows-after-eviction-history', {'shape': 'long-history', 'capacity': 'real', 'kind': kind}, {'kind': 'long', 'hkind': kind, 'n': n, 'laps': laps}, {'what': problem})
    reset(gf, None)
    return st


def _single_run(kind, args):
    return {'huge': huge_cache_history, 'long': long_history, 'threads': thread_lifetime_history}[kind](*args)


def run(ctx):
    st = Stats()
    # (threads, cache capacity, preemption bound, filter calls per thread)
    if ctx.quick:
        todo = [(['a', 'b and not a'], None, 2, 2), (['a', 'a'], None, 1, 2), (['a', 'b and not a'], 1, 1, 2),
                (['a', 'b and not a', 'c or a'], None, 1, 2), (['a', 'b and not a', 'a'], 2, 1, 2),
                ([ESC_A, ESC_B], None, 1, 1), ([ESC_U, ESC_V], None, 1, 1), ([REF_A, 'a'], None, 1, 1), ([REF_A, REF_B], None, 1, 1)]
    else:
        todo = [([REF_A, 'a'], None, 2, 1), ([REF_A, REF_B], None, 2, 1), ([REF_A, REF_B, 'c or a'], None, 1, 1), ([ESC_A, ESC_B], None, 2, 1), ([ESC_U, ESC_V], None, 2, 1), ([ESC_A, ESC_U, ESC_B], None, 1, 1), (['a', 'b and not a'], None, 3, 1), (['a', 'b and not a'], None, 2, 2), (['a', 'a'], None, 2, 2), (['a', 'b and not a'], 1, 2, 2),
                (['a', 'b and not a', 'c or a'], None, 2, 1), (['a', 'b and not a', 'c or a'], None, 1, 2), (['a', 'b and not a', 'a'], 2, 2, 1)]
    bounds = [{'threads': plan, 'cache_capacity': cap or 'real', 'preemption_bound': bound, 'filter_calls_per_thread': calls} for plan, cap, bound, calls in todo]
    rounds = explore_plan_set(todo, ctx, st)
    L = 5 if ctx.quick else 6
    for cap in (1, 2):
        seqs = [s for n in range(1, L + 1) for s in itertools.product(range(4), repeat=n)]
        seeded_rng(ctx.seed, 'c13h').shuffle(seqs)
        for part in pmap(history_task, [(c, cap) for c in chunks(seqs, ctx.jobs * 2)], ctx.jobs):
            st.merge(part)
    n = len(FAMILY)
    fam = [(i,) for i in range(n)] + [(i, j) for i in range(n) for j in range(n) if i != j]
    if not ctx.quick:
        fam += [(i, j, k) for i in range(n) for j in range(n) for k in range(n) if len({i, j, k}) == 3 and (i + j + k) % 3 == 0]
    seeded_rng(ctx.seed, 'c13f').shuffle(fam)
    for part in pmap(family_task, [(c,) for c in chunks(fam, ctx.jobs * 2)], ctx.jobs):
        st.merge(part)
    GL = 4 if ctx.quick else 5
    gs = [q for n in range(1, GL + 1) for q in itertools.product(range(len(GS_EVENTS)), repeat=n) if q[-1] < 3]     # a history ends in an evaluation
    seeded_rng(ctx.seed, 'c13g').shuffle(gs)
    for part in pmap(gridstate_task, [(c,) for c in chunks(gs, ctx.jobs * 2)], ctx.jobs):
        st.merge(part)
    longs = [('cyclic', 499, 2), ('cyclic', 500, 2), ('cyclic', 501, 2), ('cyclic', 502, 2), ('hot-cold', 1100, 1), ('hot-cold', 520, 2)]
    if not ctx.quick:
        longs += [('cyclic', 1500, 2), ('cyclic', 501, 3), ('cyclic', 502, 3), ('hot-cold', 2600, 1), ('hot-cold', 5200, 1)]
    huge = [(3000,)] if ctx.quick else [(150000,)]
    singles = [('huge', a) for a in huge] + [('long', a) for a in longs] + [('threads', (8,)), ('threads', (40,))]
    for part in pmap(_single_run, singles, ctx.jobs):
        st.merge(part)
    return {
        'stats': st, 'exhaustive': True,
        'rule': 'schedules: every interleaving (scheduling point = every source line of the non-lambda functions of hszinc/grid_filter.py and of '
                'Grid.filter) of the listed thread plans with at most preemption_bound preemptions, each followed by a sequential post-phase; '
                'histories: every request sequence of length <= %d over 4 filters with cache capacity 1 and 2; every ordered pair of 26 near-colliding or unit-sensitive filters (same text up to the kind of the literal, blanks or parentheses) from a clean state; every history of length <= %d over 3 reference-following filters and 7 data changes (row replaced, mutated in place, deleted and re-appended, tag dropped, rows appended, grid swapped for another of the same size) ending in an evaluation; plus individual long histories around '
                'the real capacity and two histories of 8 / 40 filters compiled by consecutive short-lived threads (reported as individual runs, not exhaustive); evaluations = complete executions of the real code; distinct = '
                'distinct (plan, capacity, schedule) or request sequence; non-trivial = at least one non-default scheduling choice / two different filters' % (L, GL),
        'coverage': {'bounds': {'schedule_plans': bounds, 'history_length': L, 'history_capacities': [1, 2], 'long_histories': longs, 'filters_alive_at_once': huge[0][0], 'data_history_length': GL, 'data_histories': len(gs), 'data_events': GS_EVENTS},
                     'exhaustive_note': 'exhaustive for the schedule plans up to their preemption bound and for the short histories; the long histories are single runs'},
        'assumptions': ['interleavings below source-line granularity and inside C code (functools.lru_cache, dict operations) are not explored',
                        'gc is disabled during an execution so finalisers run at reference-count zero only',
                        'real Lock/RLock objects found in grid_filter\'s globals are replaced by scheduler-aware locks'],
    }


def replay(case, st):
    if case['kind'] == 'schedule':
        s, obs, problems, used = one_execution(case['schedule'], case['plan'], case['capacity'], case.get('calls', 2))
        for sym, text in problems[:2]:
            st.fail(sym, {'capacity': str(used)}, case, {'what': text})
    elif case['kind'] == 'family':
        st.merge(family_task([tuple(case['seq'])]))
    elif case['kind'] == 'huge-cache':
        st.merge(huge_cache_history(case['n']))
    elif case['kind'] == 'thread-lifetimes':
        st.merge(thread_lifetime_history(case['n']))
    elif case['kind'] == 'gridstate':
        st.merge(gridstate_task([tuple(case['seq'])]))
    elif case['kind'] == 'history':
        st.merge(history_task([tuple(case['seq'])], case['capacity']))
    else:
        st.merge(long_history(case['hkind'], case['n'], case['laps']))
