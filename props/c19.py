# -*- coding: utf-8 -*-
"""C19 — equality of Haystack values and grids is a lawful, kind-aware relation.

Driver A, complete enumeration: all ordered pairs over the whole value catalogue, all triples over
the per-kind representatives, and for grids every (slot, v, w) over the catalogue: g(v) equals an
independently built copy and its own round trip, and is unequal — False, not an exception — to
g(w) whenever the neutral forms of v and w differ beyond the float tolerance; plus single
structural differences.
"""
import copy
import itertools
import math

from mc.explore import Stats, pmap, chunks, seeded_rng, HarnessError, Product
from ref import neutral as N, observe as O, catalogue as C
from props import rt


def ev(f):
    try:
        return ('ok', f())
    except BaseException as e:  # noqa
        return ('raise', type(e).__name__)


# values that exist in memory only (NaN / INF with a unit has no ZINC or JSON literal): they take part in == like any other
_NAN = float('nan')
EXTRA = [C.E('qty:nan kg', N.num(_NAN, 'kg'), rep=True), C.E('qty:nan m', N.num(_NAN, 'm'), rep=True), C.E('qty:inf kg', N.num(float('inf'), 'kg')),
         # large values that differ materially in absolute terms and by less than 1e-6 in relative terms (the tolerance is absolute)
         C.E('num:1500000000', N.num(1500000000.0), rep=True), C.E('num:1500000001', N.num(1500000001.0), rep=True),
         C.E('qty:123456.0kWh', N.num(123456.0, 'kWh'), rep=True), C.E('qty:123456.1kWh', N.num(123456.1, 'kWh'), rep=True),
         C.E('num:40000000.5', N.num(40000000.5)), C.E('num:40000000', N.num(40000000.0)),
         # the same bytes under the other binary encoding: equal by the class's documented rule (payload only), so their hashes - if any - agree
         C.E('xstr:b64(deadbeef)', ('xstr', 'b64', bytes.fromhex('deadbeef')), minver='3.0', rep=True), C.E('xstr:hex(000102)', ('xstr', 'hex', b'\x00\x01\x02'), minver='3.0')]


def entries(soft=False):
    return [e for e in C.V if soft or not e.soft] + EXTRA


def has_nan(n):
    return any(x[0] == 'num' and x[1] != x[1] for x in N.walk(n))


def units_differ(a, b):
    return a.n[0] == 'num' and b.n[0] == 'num' and a.n[2] is not None and b.n[2] is not None and a.n[2] != b.n[2]


def both_quantities(hs, x, y):
    return isinstance(x, hs.Quantity) and isinstance(y, hs.Quantity)


def expected_equal(a, b):
    """What the statement pins for a == b; None = not pinned (tolerated either way)."""
    ka, kb = a.n[0], b.n[0]
    if ka != kb:
        textlike = {'str', 'uri', 'bin'}
        if ka in textlike and kb in textlike:
            return False
        if {ka, kb} <= {'num', 'bool'}:
            return None                  # Python numeric tower (True == 1): not pinned
        if {ka, kb} <= {'date', 'dt'}:
            return False
        return False
    if ka == 'num' and a.n[2] != b.n[2]:
        # a Quantity compares as its value against a plain number (C20); two Quantities with differing units raise
        return (a.n[1] == b.n[1]) if (a.n[2] is None or b.n[2] is None) and a.n[1] == a.n[1] and b.n[1] == b.n[1] else None
    if ka == 'num' and a.n[2] == b.n[2] and a.n[1] == b.n[1]:
        return True                      # 0.0 == -0.0: equality is numeric equality (only the round-trip checks tell the two zeros apart)
    if N.same(a.n, b.n, 'exact') is None and N.same(b.n, a.n, 'exact') is None:
        if has_nan(a.n):
            return None
        if ka == 'dt' and a.n != b.n:
            return None
        return True
    if ka == 'dt':
        return a.n[1] == b.n[1]          # same instant, whatever the zone
    if ka == 'xstr' and a.n[2] == b.n[2]:
        return None                      # only the payload is compared (documented in the class)
    if ka in ('list', 'dict', 'grid'):
        return None if (has_nan(a.n) or has_nan(b.n)) else False
    return False


def pair_task(rows, names):
    import hszinc as hs
    ents = {e.name: e for e in entries()}
    st = Stats()
    built = {}

    def obj(e, which):
        key = (e.name, which)
        if key not in built:
            built[key] = O.build(e.n, hs, e.hint)
        return built[key]
    for an in rows:
        a = ents[an]
        for bn in names:
            b = ents[bn]
            x, y = obj(a, 0), obj(b, 1)
            st.count('executions')
            case = {'kind': 'pair', 'a': an, 'b': bn}
            sig = {'kinds': '%s/%s' % (a.n[0], b.n[0])}
            eq, ne = ev(lambda: x == y), ev(lambda: x != y)
            req = ev(lambda: y == x)
            obs = (eq[0], ne[0])
            allowed_raise = both_quantities(hs, x, y) and x.unit != y.unit
            if not allowed_raise and a.n[0] == b.n[0] and a.n[0] in ('list', 'dict'):
                # plain Python containers compare their members with ==: the documented TypeError of two quantities in different
                # units surfaces through them (that is Python's list / dict equality, not hszinc's)
                ua = set(x_[2] for x_ in N.walk(a.n) if x_[0] == 'num' and x_[2] is not None)
                ub = set(x_[2] for x_ in N.walk(b.n) if x_[0] == 'num' and x_[2] is not None)
                allowed_raise = bool(ua) and bool(ub) and ua != ub
            if 'raise' in (eq[0], ne[0]):
                if not allowed_raise or (eq, ne) != (('raise', 'TypeError'), ('raise', 'TypeError')):
                    st.fail('equality-raised', dict(sig, exc=str(eq[1] if eq[0] == 'raise' else ne[1])), case, {'eq': repr(eq), 'ne': repr(ne)})
                st.case((an, bn), nontrivial=an != bn, outcome=('raise', sig['kinds']))
                continue
            if allowed_raise and both_quantities(hs, x, y) and (x.unit or None) != (y.unit or None):
                st.fail('quantities-with-differing-units-compared-without-TypeError', sig, case, {'eq': repr(eq)})
            e_, n_ = eq[1], ne[1]
            if not isinstance(e_, bool) or not isinstance(n_, bool):
                st.fail('equality-not-boolean', sig, case, {'eq': repr(eq), 'ne': repr(ne)})
                continue
            if e_ == n_:
                st.fail('eq-and-ne-not-complementary', dict(sig, eq=e_), case, {'eq': e_, 'ne': n_})
            if req[0] != 'ok' or req[1] != e_:
                st.fail('equality-not-symmetric', sig, case, {'a==b': repr(eq), 'b==a': repr(req)})
            want = expected_equal(a, b)
            if want is not None and e_ != want:
                st.fail('equal-values-unequal' if want else 'different-values-compare-equal', sig, case, {'expected': want, 'observed': e_})
            if e_ and a.n[0] == b.n[0] and type(x) is type(y):
                hx, hy = ev(lambda: hash(x)), ev(lambda: hash(y))
                if hx[0] == 'ok' and hy[0] == 'ok' and hx[1] != hy[1]:
                    st.fail('equal-values-hash-differently', sig, case, {})
            st.case((an, bn), nontrivial=an != bn, outcome=(e_, a.n[0] == b.n[0]))
        # reflexivity, copies, singletons
        x = obj(a, 0)
        for what, y in (('itself', x), ('copy', copy.copy(x)), ('deepcopy', copy.deepcopy(x)), ('rebuilt', O.build(a.n, hs, a.hint))):
            st.count('executions')
            r = ev(lambda: x == y)
            if has_nan(a.n):
                continue
            if a.n[0] == 'grid' and what != 'itself' and False:
                continue
            if r != ('ok', True):
                st.fail('value-not-equal-to-%s' % what, {'kinds': a.n[0]}, {'kind': 'reflexive', 'a': an, 'what': what}, {'observed': repr(r)})
            if a.n[0] in ('marker', 'na', 'remove') and y is not x:
                st.fail('singleton-duplicated-by-%s' % what, {'kinds': a.n[0]}, {'kind': 'reflexive', 'a': an, 'what': what}, {})
    if rows:
        st.samples.append({'pair': [rows[0], names[len(names) // 3]]})
    return st


def triple_task(rows, names):
    import hszinc as hs
    ents = {e.name: e for e in entries()}
    objs = {n: O.build(ents[n].n, hs, ents[n].hint) for n in names}
    st = Stats()
    eqm = {}
    for a in names:
        for b in names:
            eqm[(a, b)] = ev(lambda: objs[a] == objs[b]) == ('ok', True)
    for a in rows:
        for b in names:
            if not eqm[(a, b)]:
                st.count('executions', len(names))
                continue
            for c in names:
                st.count('executions')
                if eqm[(b, c)] and not eqm[(a, c)]:
                    st.fail('equality-not-transitive', {'kinds': '/'.join(ents[x].n[0] for x in (a, b, c))}, {'kind': 'triple', 'a': a, 'b': b, 'c': c}, {})
    st.case(('triples', tuple(rows)), outcome=('t',))
    return st


def grid_for(hs, ver, slot, e, shape='full'):
    slots = rt.SLOTS3 if (ver == '3.0' and shape == 'full') else rt.SLOTS2
    ents = {s: (e if s == slot else rt.DEFAULT) for s in slots}
    objs = {s: O.build(ents[s].n, hs, ents[s].hint) for s in slots}
    return rt.assemble(hs, ver, objs, False) if shape == 'full' else rt.flat_assemble(hs, ver, objs, False)


def grid_task(items, others):
    """items: (ver, slot, name).  g(v) vs copy / round trips / g(w) for every w in others."""
    import hszinc as hs
    ents = {e.name: e for e in entries()}
    st = Stats()
    for ver, slot, vn in items:
        v = ents[vn]
        case0 = {'kind': 'grid', 'ver': ver, 'slot': slot, 'v': vn}
        try:
            g1, g2 = grid_for(hs, ver, slot, v), grid_for(hs, ver, slot, v)
        except Exception:  # noqa
            st.skip('grid cannot be built')
            continue
        st.count('executions')
        sigv = {'slot_kind': slot, 'kinds': v.n[0]}
        if not has_nan(v.n) or True:
            r = ev(lambda: g1 == g2)
            if r != ('ok', True):
                st.fail('grid-not-equal-to-faithful-copy', dict(sigv, observed=str(r[1])), dict(case0, w='copy'), {'observed': repr(r)})
            r = ev(lambda: g1 != g2)
            if r != ('ok', False):
                st.fail('grid-ne-true-for-faithful-copy', dict(sigv, observed=str(r[1])), dict(case0, w='copy'), {'observed': repr(r)})
        # own round trips (only where the round trip is exact per observe, i.e. C01/C02 hold for v)
        for mode, name, tol in ((hs.MODE_ZINC, 'zinc', 'zinc'), (hs.MODE_JSON, 'json', 'json')):
            st.count('executions')
            try:
                back = hs.parse(hs.dump(g1, mode=mode), mode=mode)
                faithful = N.same(O.observe_grid(g1, hs), O.observe_grid(back, hs), tol) is None and \
                    N.same(O.observe_grid(back, hs), O.observe_grid(g1, hs), tol) is None
            except Exception:  # noqa
                st.skip('round trip fails (C01/C02 subject)')
                continue
            if not faithful:
                st.skip('round trip not faithful per observe (C01/C02 subject or zone-less date-time)')
                continue
            r = ev(lambda: g1 == back)
            if r != ('ok', True):
                st.fail('grid-not-equal-to-own-roundtrip', dict(sigv, fmt=name, observed=str(r[1])), dict(case0, w='roundtrip-' + name), {'observed': repr(r)})
        for wn in others:
            w = ents[wn]
            if ver == '2.0' and (w.minver == '3.0' or N.needs_v3(w.n)):
                continue
            st.count('executions')
            try:
                gw = grid_for(hs, ver, slot, w)
            except Exception:  # noqa
                continue
            differ = N.same(v.n, w.n, 'json') is not None or N.same(w.n, v.n, 'json') is not None
            if not differ:
                continue
            if v.n[0] == w.n[0] == 'dt' and v.n[1] == w.n[1]:
                continue            # same instant in another zone: not pinned
            if v.n[0] == w.n[0] == 'xstr' and v.n[2] == w.n[2]:
                continue
            if {v.n[0], w.n[0]} <= {'num', 'bool'} and v.n[0] != w.n[0]:
                pass
            if v.n[0] == w.n[0] == 'time' and v.n[1:4] == w.n[1:4]:
                continue            # sub-second difference: inside the documented tolerance of Grid ==
            if v.n[0] == w.n[0] == 'dt' and abs(v.n[1] - w.n[1]) < 1000000:
                continue
            if v.n[0] == w.n[0] == 'coord' and abs(v.n[1] - w.n[1]) < 2e-6 and abs(v.n[2] - w.n[2]) < 2e-6:
                continue
            if v.n[0] == w.n[0] == 'num' and v.n[2] == w.n[2] and abs(v.n[1] - w.n[1]) < 2e-6:
                continue
            if v.n[0] in ('list', 'dict', 'grid') and v.n[0] == w.n[0] and (has_nan(v.n) or has_nan(w.n)):
                continue
            r = ev(lambda: g1 == gw)
            case = dict(case0, w=wn)
            sig = {'slot_kind': slot, 'kinds': '%s/%s' % (v.n[0], w.n[0])}
            st.case((ver, slot, vn, wn), outcome=(r[0], r[1] if r[0] == 'raise' else bool(r[1]), v.n[0] == w.n[0]))
            if r[0] == 'raise':
                st.fail('grid-equality-raised', dict(sig, exc=r[1]), case, {})
            elif r[1] is not False:
                st.fail('materially-different-grids-compare-equal', sig, case, {})
            else:
                r2 = ev(lambda: g1 != gw)
                if r2 != ('ok', True):
                    st.fail('grid-ne-not-complementary', dict(sig, observed=str(r2[1])), case, {})
    return st


def structural(st):
    import hszinc as hs

    def base():
        g = hs.Grid(version='2.0', columns=[('a', [('cm', 'x')]), ('b', [])])
        g.metadata['gm'] = 'x'
        g.append({'a': 1.0, 'b': 'p'})
        g.append({'a': 2.0, 'b': 'q'})
        return g

    def v_rows(g):
        g.append({'a': 3.0})

    def v_colname(g):
        g.column.add_item('c', g.column.pop('b'))

    def v_meta_name(g):
        g.metadata['other'] = g.metadata.pop('gm')

    def v_colmeta_name(g):
        g.column['a']['cm2'] = g.column['a'].pop('cm')

    def v_colmeta_val(g):
        g.column['a']['cm'] = 'y'

    def v_none_colmeta_renamed(g):
        # a tag whose value is None, under another name on the other side (both sides hold the same NUMBER of tags)
        g.column['a']['other_name'] = g.column['a'].pop('nn')

    def v_none_meta_renamed(g):
        g.metadata['other_name'] = g.metadata.pop('nn')

    def v_none_vs_marker(g):
        g.column['a']['nn'] = hs.MARKER

    def v_meta_val(g):
        g.metadata['gm'] = hs.MARKER

    def v_extra_col(g):
        g.column['z'] = {}

    def v_cell(g):
        g[1]['b'] = 'Q'

    def v_absent_vs_null(g):
        g[1]['b'] = None

    def v_absent_vs_value(g):
        del g[1]['b']

    def v_absent_first_row(g):
        del g[0]['a']

    def base_with_none():
        g = base()
        g.column['a']['nn'] = None
        g.metadata['nn'] = None
        return g
    for name, mut in (('column-metadata-name-of-a-None-valued-tag', v_none_colmeta_renamed), ('metadata-name-of-a-None-valued-tag', v_none_meta_renamed),
                      ('column-metadata-None-vs-marker', v_none_vs_marker)):
        g, h = base_with_none(), base_with_none()
        mut(h)
        for x, y, d in ((g, h, 'a,b'), (h, g, 'b,a')):
            st.count('executions')
            r = ev(lambda: x == y)
            st.case(('structural', name, d), outcome=(r[0], str(r[1])))
            if r != ('ok', False):
                st.fail('grid-equality-raised' if r[0] == 'raise' else 'materially-different-grids-compare-equal',
                        {'difference': name, 'exc': str(r[1])}, {'kind': 'structural', 'difference': name, 'order': d}, {'observed': repr(r)})
    for name, mut in (('row-count', v_rows), ('column-name', v_colname), ('metadata-name', v_meta_name), ('column-metadata-name', v_colmeta_name),
                      ('column-metadata-value', v_colmeta_val), ('metadata-value', v_meta_val), ('extra-column', v_extra_col), ('cell', v_cell),
                      ('null-vs-str', v_absent_vs_null), ('absent-vs-str', v_absent_vs_value), ('absent-vs-number', v_absent_first_row)):
        g, h = base(), base()
        mut(h)
        for x, y, d in ((g, h, 'a,b'), (h, g, 'b,a')):
            st.count('executions')
            r = ev(lambda: x == y)
            st.case(('structural', name, d), outcome=(r[0], str(r[1])))
            if r != ('ok', False):
                st.fail('grid-equality-raised' if r[0] == 'raise' else 'materially-different-grids-compare-equal',
                        {'difference': name, 'exc': str(r[1])}, {'kind': 'structural', 'difference': name, 'order': d}, {'observed': repr(r)})
    # the same names in another order with the values exchanged: every name now has another value
    def swapped(which):
        def one(order):
            g = hs.Grid(version='2.0', columns=[('a', []), ('b', [])])
            vals = {'first': 'x', 'second': 'y'}
            tgt = g.metadata if which == 'metadata' else g.column['a']
            for k, (name, v) in enumerate(zip(order, ('x', 'y'))):
                tgt[name] = v
            g.append({'a': 1.0, 'b': 'p'})
            return g
        return one(('m1', 'm2')), one(('m2', 'm1'))
    for which in ('metadata', 'column-metadata'):
        g, h = swapped(which)
        for x, y, d in ((g, h, 'a,b'), (h, g, 'b,a')):
            st.count('executions')
            r = ev(lambda: x == y)
            name = which + '-values-exchanged-between-reordered-names'
            st.case(('structural', name, d), outcome=(r[0], str(r[1])))
            if r != ('ok', False):
                st.fail('grid-equality-raised' if r[0] == 'raise' else 'materially-different-grids-compare-equal',
                        {'difference': name, 'exc': str(r[1])}, {'kind': 'structural', 'difference': name, 'order': d}, {'observed': repr(r)})

    def nested(meta='m', cmeta='u', col='x', val=1.0, rows=1):
        inner = hs.Grid(version='3.0', columns=[(col, [('cm', cmeta)])])
        inner.metadata['im'] = meta
        for i in range(rows):
            inner.append({col: val})
        g = hs.Grid(version='3.0', columns=[('a', []), ('b', [])])
        g.append({'a': inner, 'b': [inner, {'k': inner}]})
        return g

    for name, kw in (('nested-grid-metadata', {'meta': 'other'}), ('nested-grid-column-metadata', {'cmeta': 'other'}), ('nested-grid-column-name', {'col': 'y'}),
                     ('nested-grid-cell', {'val': 2.0}), ('nested-grid-row-count', {'rows': 2})):
        for x, y, d in ((nested(), nested(**kw), 'a,b'), (nested(**kw), nested(), 'b,a')):
            st.count('executions')
            r = ev(lambda: x == y)
            st.case(('structural', name, d), outcome=(r[0], str(r[1])))
            if r != ('ok', False):
                st.fail('grid-equality-raised' if r[0] == 'raise' else 'materially-different-grids-compare-equal',
                        {'difference': name, 'exc': str(r[1])}, {'kind': 'structural', 'difference': name, 'order': d}, {'observed': repr(r)})
    st.count('executions')
    if ev(lambda: nested() == nested()) != ('ok', True):
        st.fail('grid-not-equal-to-faithful-copy', {'slot_kind': 'nested', 'kinds': 'grid'}, {'kind': 'structural', 'difference': 'none', 'order': 'a,b'}, {})
    for other in (5, 'x', None, [], {}):
        st.count('executions')
        r = ev(lambda: base() == other)
        r2 = ev(lambda: base() != other)
        if r != ('ok', False) or r2 != ('ok', True):
            st.fail('grid-equality-raised' if 'raise' in (r[0], r2[0]) else 'grid-equal-to-non-grid', {'other': type(other).__name__, 'exc': str(r[1])},
                    {'kind': 'structural', 'difference': 'non-grid:' + type(other).__name__, 'order': 'a,b'}, {'eq': repr(r), 'ne': repr(r2)})


def history_probes(hs):
    """(name, make pair, pinned verdict or None).  Date-times with the same wall clock in differently named zones: the same
    instant in winter, an hour apart in summer — and the other way round for a southern pair."""
    import datetime
    import pytz

    def dtgrid(olson, *fields):
        g = hs.Grid(version='2.0', columns=[('t', [])])
        g.metadata['at'] = pytz.timezone(olson).localize(datetime.datetime(*fields))
        g.append({'t': pytz.timezone(olson).localize(datetime.datetime(*fields))})
        return g

    def numgrid(v, s='x'):
        g = hs.Grid(version='2.0', columns=[('n', []), ('s', [])])
        g.append({'n': v, 's': s})
        return g
    P = []
    for a, b in (('Europe/London', 'Africa/Abidjan'), ('America/New_York', 'America/Panama'), ('Europe/Berlin', 'Africa/Lagos'),
                 ('Australia/Sydney', 'Australia/Brisbane')):
        for label, fields in (('jan', (2021, 1, 15, 12, 0, 0)), ('jul', (2021, 7, 15, 12, 0, 0))):
            za, zb = pytz.timezone(a), pytz.timezone(b)
            same = za.localize(datetime.datetime(*fields)).utcoffset() == zb.localize(datetime.datetime(*fields)).utcoffset()
            for x, y in ((a, b), (b, a)):
                P.append(('%s-vs-%s-%s' % (x.split('/')[-1], y.split('/')[-1], label),
                          (lambda x=x, y=y, fields=fields: (dtgrid(x, *fields), dtgrid(y, *fields))), None if same else False))
    P.append(('number-equal', lambda: (numgrid(1.0), numgrid(1.0)), True))
    P.append(('number-differs', lambda: (numgrid(1.0), numgrid(2.0)), False))
    P.append(('bool-vs-number', lambda: (numgrid(True), numgrid(1.0)), None))
    P.append(('str-differs', lambda: (numgrid(1.0, 'x'), numgrid(1.0, 'y')), False))
    P.append(('quantity-units', lambda: (numgrid(hs.Quantity(1.0, 'kg')), numgrid(hs.Quantity(1.0, 'm'))), False))
    return P


def history_independence(st):
    """== between grids is a function of the two grids: the verdict on every probe pair after every other probe pair (from
    the import-time module state) is the verdict it gets when it is the first comparison ever made."""
    import hszinc as hs
    from mc import modstate
    P = history_probes(hs)
    fresh = {}
    for name, mk, pinned in P:
        modstate.restore()
        x, y = mk()
        fresh[name] = (ev(lambda: x == y), ev(lambda: x != y))
        st.count('executions')
        if fresh[name][0][0] != 'ok' or fresh[name][1] != ('ok', not fresh[name][0][1]) or (pinned is not None and fresh[name][0][1] is not pinned):
            st.fail('grid-equality-raised' if 'raise' in (fresh[name][0][0], fresh[name][1][0]) else
                    ('materially-different-grids-compare-equal' if pinned is False else 'grid-equality-wrong-on-probe'),
                    {'difference': 'probe:' + name}, {'kind': 'history', 'first': None, 'second': name}, {'observed': repr(fresh[name])})
    for n1, mk1, _ in P:
        for n2, mk2, _ in P:
            modstate.restore()
            a, b = mk1()
            ev(lambda: a == b)
            x, y = mk2()
            got = (ev(lambda: x == y), ev(lambda: x != y))
            st.count('executions')
            st.case(('history', n1, n2), outcome=('history', got == fresh[n2]))
            if got != fresh[n2]:
                st.fail('grid-equality-depends-on-earlier-comparisons', {'second': n2.split('-')[-1], 'kind': 'dt' if '-vs-' in n2 else 'other'},
                        {'kind': 'history', 'first': n1, 'second': n2}, {'as_first_comparison': repr(fresh[n2]), 'after_' + n1: repr(got)})


class _FoldAwareLondon(__import__('datetime').tzinfo):
    """A minimal PEP 495 zone of the harness's own: +01:00 until the clocks go back at 02:00 local on 2021-10-31, +00:00 afterwards.
    Instances compare by identity (as zoneinfo.ZoneInfo objects from different caches do)."""
    def utcoffset(self, dt):
        return self.dst(dt)

    def dst(self, dt):
        import datetime
        wall = dt.replace(tzinfo=None)
        back = datetime.datetime(2021, 10, 31, 1, 0)
        if wall < back:
            return datetime.timedelta(hours=1)
        if wall < back + datetime.timedelta(hours=1):
            return datetime.timedelta(0) if dt.fold else datetime.timedelta(hours=1)
        return datetime.timedelta(0)

    def tzname(self, dt):
        return 'BST' if self.dst(dt) else 'GMT'

    def __deepcopy__(self, memo):
        return _FoldAwareLondon()


FOREIGN_WALLS = [((2021, 10, 31, 0, 30, 15), 0), ((2021, 10, 31, 1, 30, 15), 0), ((2021, 10, 31, 1, 30, 15), 1), ((2021, 10, 31, 2, 30, 15), 0),
                 ((2021, 10, 31, 1, 0, 0), 0), ((2021, 10, 31, 1, 0, 0), 1), ((2021, 7, 1, 12, 0, 0), 0)]
FOREIGN_PROVIDERS = ['zoneinfo', 'zoneinfo-uncached', 'fold-aware class', 'fixed offset', 'pytz']


def _foreign_value(provider, wall, fold):
    """-> (aware datetime, utc instant as naive datetime, offset) for the wall clock reading `wall` (fold) in London, carried by `provider`."""
    import datetime
    ref = datetime.datetime(*wall, fold=fold, tzinfo=_FoldAwareLondon())
    off = ref.utcoffset()
    instant = ref.replace(tzinfo=None) - off
    if provider == 'fold-aware class':
        v = ref
    elif provider in ('zoneinfo', 'zoneinfo-uncached'):
        import zoneinfo
        z = zoneinfo.ZoneInfo('Europe/London') if provider == 'zoneinfo' else zoneinfo.ZoneInfo.no_cache('Europe/London')
        v = datetime.datetime(*wall, fold=fold, tzinfo=z)
    elif provider == 'fixed offset':
        v = datetime.datetime(*wall, tzinfo=datetime.timezone(off))
    else:
        import pytz
        v = pytz.utc.localize(instant).astimezone(pytz.timezone('Europe/London'))
    if v.utcoffset() != off or v.replace(tzinfo=None) != ref.replace(tzinfo=None):
        raise HarnessError('tz provider %s disagrees with the harness about London on %r' % (provider, wall))
    return v, instant, off


def foreign_tz(st, only=None):
    """Date-time cells carried by tzinfo classes other than the library's own (zoneinfo, a PEP 495 class, fixed offsets) next to pytz:
    two grids are equal when their cells are the same reading at the same offset (whatever object carries the zone), and unequal
    when the cells denote instants a second or more apart - in particular the two passes through the repeated hour at the end of DST,
    which share tzinfo, date and time and differ in `fold` only.  A grid equals its deepcopy and its faithful round trips."""
    import hszinc as hs
    import datetime
    try:
        import zoneinfo
        zoneinfo.ZoneInfo('Europe/London')
        providers = FOREIGN_PROVIDERS
    except Exception:  # noqa
        providers = [p for p in FOREIGN_PROVIDERS if not p.startswith('zoneinfo')]

    def G(v, where):
        g = hs.Grid(version='3.0', columns=[('ts', []), ('v', [])])
        if where == 'cell':
            g.append({'ts': v, 'v': 1.0})
        elif where == 'list':
            g.append({'ts': [v, 1.0], 'v': 1.0})
        elif where == 'dict':
            g.append({'ts': {'k': v}, 'v': 1.0})
        else:
            g.metadata['stamp'] = v
            g.append({'ts': None, 'v': 1.0})
        return g
    for pa in providers:
        for wa, fa in FOREIGN_WALLS:
            va, ia, oa = _foreign_value(pa, wa, fa)
            for where in ('cell', 'list', 'dict', 'meta'):
                case0 = {'kind': 'foreign-tz', 'a': [pa, list(wa), fa], 'where': where}
                if only is not None and (only.get('a') != case0['a'] or only.get('where') != where):
                    continue
                g1 = G(va, where)
                sig0 = {'kinds': 'dt (foreign tzinfo)', 'provider': pa, 'where': where, 'fold': fa}
                for what, other in (('deepcopy', lambda: copy.deepcopy(g1)), ('rebuilt', lambda: G(_foreign_value(pa, wa, fa)[0], where))):
                    st.count('executions')
                    r = ev(lambda: (g1 == other(), g1 != other()))
                    st.case(('foreign-tz', pa, wa, fa, where, what), outcome=r)
                    if r != ('ok', (True, False)):
                        st.fail('grid-not-equal-to-faithful-copy', dict(sig0, what=what, observed=str(r[1])), dict(case0, b=what), {'observed': repr(r)})
                for mode, name in ((hs.MODE_ZINC, 'zinc'), (hs.MODE_JSON, 'json')):
                    st.count('executions')
                    try:
                        back = hs.parse(hs.dump(g1, mode=mode), mode=mode)
                        faithful = N.same(O.observe_grid(g1, hs), O.observe_grid(back, hs), name) is None
                    except Exception:  # noqa
                        st.skip('round trip fails (C01/C02/C17 subject)')
                        continue
                    if not faithful:
                        st.skip('round trip not faithful per observe (C17 subject: zone renamed)')
                        continue
                    r = ev(lambda: (g1 == back, back == g1, g1 != back))
                    if r != ('ok', (True, True, False)):
                        st.fail('grid-not-equal-to-own-roundtrip', dict(sig0, fmt=name, observed=str(r[1])), dict(case0, b='roundtrip-' + name), {'observed': repr(r)})
                for pb in providers:
                    for wb, fb in FOREIGN_WALLS:
                        if only is not None and only.get('b') != [pb, list(wb), fb]:
                            continue
                        vb, ib, ob = _foreign_value(pb, wb, fb)
                        g2 = G(vb, where)
                        st.count('executions')
                        r = ev(lambda: (g1 == g2, g1 != g2))
                        same_reading = (ia == ib and oa == ob)
                        apart = abs((ia - ib).total_seconds()) >= 1.0
                        st.case(('foreign-tz', pa, wa, fa, pb, wb, fb, where), nontrivial=(pa, wa, fa) != (pb, wb, fb), outcome=(r, same_reading, apart))
                        case = dict(case0, b=[pb, list(wb), fb])
                        sig = dict(sig0, other=pb, same_wall_clock=(wa == wb))
                        if r[0] == 'raise':
                            st.fail('grid-equality-raised', dict(sig, exc=r[1]), case, {})
                        elif same_reading and r[1] != (True, False):
                            st.fail('grid-not-equal-to-faithful-copy', dict(sig, what='same reading and offset under another tzinfo object', observed=str(r[1])), case,
                                    {'a': repr(va), 'b': repr(vb)})
                        elif apart and r[1] != (False, True):
                            st.fail('materially-different-grids-compare-equal', sig, case, {'a': repr(va), 'b': repr(vb), 'instants_apart_s': (ia - ib).total_seconds()})


def run(ctx):
    st = Stats()
    history_independence(st)
    foreign_tz(st)
    names = [e.name for e in entries()]
    rng = seeded_rng(ctx.seed, 'c19')
    rows = list(names)
    rng.shuffle(rows)
    for part in pmap(pair_task, [(c, names) for c in chunks(rows, ctx.jobs * 2)], ctx.jobs):
        st.merge(part)
    reps = [e.name for e in entries() if e.rep]
    rr = list(reps)
    rng.shuffle(rr)
    for part in pmap(triple_task, [(c, reps) for c in chunks(rr, ctx.jobs)], ctx.jobs):
        st.merge(part)
    items = []
    for ver in ('3.0', '2.0'):
        cat = list(C.for_version(ver)) + EXTRA
        slots = (['cell0', 'gmeta', 'cmeta', 'lelem', 'dval', 'ncell'] if ver == '3.0' else ['cell1', 'gmeta', 'cmeta'])
        if ctx.quick:
            slots = ['cell0', 'gmeta', 'cmeta', 'lelem', 'dval'] if ver == '3.0' else slots[:1]
            cat = [e for e in cat if e.rep]
        for slot in slots:
            for e in cat:
                items.append((ver, slot, e.name))
    others = reps if ctx.quick else names
    rng.shuffle(items)
    for part in pmap(grid_task, [(c, others) for c in chunks(items, ctx.jobs * 4)], ctx.jobs):
        st.merge(part)
    structural(st)
    ex = st.c.get('executions', 0)
    st.c['states'], st.c['transitions'] = ex + 1, ex
    return {
        'stats': st, 'exhaustive': True,
        'rule': 'complete enumeration: all ordered pairs over %d catalogue values (==, !=, reflected ==, hash, copy/deepcopy/rebuilt), all triples over '
                '%d kind representatives, every (version, slot, v) grid against its copy, its ZINC and JSON round trips and g(w) for every w of '
                '%d values, single structural differences in both orders, grids against non-grids, every ordered pair of 21 probe comparisons (date-times with one wall clock in two zones, winter and summer) from the import-time module state; every ordered pair of %d tzinfo providers x %d London wall-clock readings (both passes through the repeated hour) in 4 positions of a grid, with deepcopy / rebuilt / round trips; distinct = distinct tuple; non-trivial = the '
                'two operands are different catalogue entries' % (len(names), len(reps), len(others), len(FOREIGN_PROVIDERS), len(FOREIGN_WALLS)),
        'coverage': {'bounds': {'values': len(names), 'pairs': len(names) ** 2, 'triples': len(reps) ** 3, 'grid_cases': len(items), 'grid_partners': len(others),
                                'foreign_tzinfo_providers': FOREIGN_PROVIDERS, 'foreign_wall_clock_readings': len(FOREIGN_WALLS)}},
        'assumptions': ['not pinned (tolerated either way): bool vs number (Python numeric tower), NaN payloads, date-times denoting one instant in '
                        'different zones, XStr differing only in type name, differences inside the documented tolerance of Grid == (sub-second '
                        'times, 1e-6 on numbers/coordinates)',
                        'grid round-trip equality is only required where the round trip is exact per ref/observe.py (so not for zone-less date-times)'],
    }


def replay(case, st):
    k = case['kind']
    if k == 'pair':
        st.merge(pair_task([case['a']], [case['b']]))
    elif k == 'reflexive':
        st.merge(pair_task([case['a']], [case['a']]))
    elif k == 'triple':
        st.merge(triple_task([case['a']], [case['a'], case['b'], case['c']]))
    elif k == 'grid':
        w = case['w']
        st.merge(grid_task([(case['ver'], case['slot'], case['v'])], [] if w.startswith(('copy', 'roundtrip')) else [w]))
    elif k == 'foreign-tz':
        foreign_tz(st, only=case)
    elif k == 'history':
        sub = Stats()
        history_independence(sub)
        for f in sub.failures:
            if f['case'].get('second') == case['second'] and f['case'].get('first') == case['first']:
                st.fail(f['symptom'], f['sig'], f['case'], f['detail'])
    else:
        structural(st)
