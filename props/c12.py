# -*- coding: utf-8 -*-
"""C12 — filter literals are data, never code: evaluating a filter has no side effects.

Driver A, complete product: canary payloads (Python expressions/statements with an observable
effect, names of builtins, dunder names, quote/backslash/newline break-outs) x every literal and
identifier position of the filter grammar x enclosing filter shape.  Monitored with a process-wide
audit hook used differentially (same filter with a benign payload of the same kind in the same
position), a canary builtin, a stdout recorder, a semantic probe (a row that would only be selected
if the payload had been *evaluated*), and a diff of process-global state.  Payloads are inert by
construction: nothing destructive is ever executable.
"""
import builtins
import os
import sys

from mc.explore import Stats, pmap, chunks, seeded_rng, HarnessError
from ref import neutral as N, observe as O

FLAG = []
EVENTS = []
ARMED = [False]
HOOKED = [False]
INTERESTING = ('compile', 'exec', 'open', 'import', 'os.system', 'os.exec', 'os.posix_spawn', 'os.fork', 'subprocess.Popen', 'socket.', 'os.remove', 'os.rename',
               'os.mkdir', 'os.rmdir', 'os.chdir', 'os.putenv', 'os.unsetenv', 'shutil.', 'ctypes.', 'builtins.input', 'os.chmod', 'os.truncate', 'os.listdir',
               'os.scandir', 'glob.glob', 'urllib.Request', 'code.__new__', 'function.__new__', 'marshal.', 'pickle.')


def _audit(event, args):
    if not ARMED[0]:
        return
    if not event.startswith(INTERESTING):
        return
    try:
        if event == 'compile':
            src = args[0]
            if isinstance(src, bytes):
                src = src.decode('utf-8', 'replace')
            if isinstance(src, str):
                EVENTS.append(('compile', 'generated-filter' if src.startswith('def _gen_hsfilter_') else 'other:' + src[:60]))
            else:
                EVENTS.append(('compile', 'ast'))
        elif event == 'exec':
            code = args[0]
            names = getattr(code, 'co_names', ())
            fn = getattr(code, 'co_filename', '')
            gen = any(str(n).startswith('_gen_hsfilter_') for n in names) and fn == '<string>'
            EVENTS.append(('exec', 'generated-filter' if gen else 'other:%s:%s' % (fn, ','.join(map(str, names))[:60])))
        else:
            EVENTS.append((event, repr(args)[:80]))
    except Exception as e:  # noqa
        EVENTS.append((event, 'unprintable'))


def ensure_hook():
    if not HOOKED[0]:
        sys.addaudithook(_audit)
        HOOKED[0] = True
    builtins.hszcanary = lambda *a, **k: FLAG.append(a) or 'canary-ran'


class Recorder(object):
    def __init__(self):
        self.n = 0

    def write(self, s):
        self.n += 1
        return len(s)

    def flush(self):
        pass


def snapshot():
    import hszinc
    mods = {}
    for name, m in list(sys.modules.items()):
        if name == 'hszinc' or name.startswith('hszinc.'):
            if m is None:
                continue
            d = {}
            for k, v in vars(m).items():
                if name == 'hszinc.grid_filter' and (k.startswith('_gen_hsfilter_') or k in ('_id_function', '_filter_function', '_id_counter', '_ids')):
                    continue
                d[k] = id(v)
                # the CONTENT of module-level containers is state too (a zone map that gains an entry is the same object afterwards)
                if isinstance(v, (dict, list, set)) and len(v) < 20000 and not (name == 'hszinc.grid_filter' and k.startswith('_')):
                    try:
                        d[k + ' (content)'] = (len(v), sum(hash(x if isinstance(x, (str, int, float, tuple, frozenset, type(None))) else type(x).__name__)
                                                          for x in v) & 0xffffffffffff)
                    except Exception:  # noqa
                        d[k + ' (content)'] = len(v)
            mods[name] = d
    import threading
    import warnings
    import signal
    interp = {'recursionlimit': sys.getrecursionlimit(), 'path': tuple(sys.path), 'meta_path': len(sys.meta_path), 'path_hooks': len(sys.path_hooks),
              'warning_filters': len(warnings.filters), 'threads': threading.active_count(), 'switchinterval': sys.getswitchinterval(),
              'displayhook': id(sys.displayhook), 'excepthook': id(sys.excepthook), 'stdin': id(sys.stdin), 'stderr': id(sys.stderr),
              'sigint': id(signal.getsignal(signal.SIGINT)), 'umask_probe': None, 'trace': id(sys.gettrace()), 'profile': id(sys.getprofile()),
              'logging_root_handlers': tuple(type(h).__name__ for h in __import__('logging').root.handlers), 'logging_root_level': __import__('logging').root.level,
              'logging_disable': __import__('logging').root.manager.disable, 'locale': __import__('locale').setlocale(__import__('locale').LC_ALL),
              'decimal_prec': __import__('decimal').getcontext().prec, 'tz_env': (os.environ.get('TZ'), __import__('time').tzname),
              'dont_write_bytecode': sys.dont_write_bytecode, 'int_max_str_digits': sys.get_int_max_str_digits() if hasattr(sys, 'get_int_max_str_digits') else None}
    return {'builtins': {k: id(v) for k, v in vars(builtins).items()}, 'modules': set(sys.modules), 'environ': dict(os.environ), 'cwd': os.getcwd(),
            'hszinc': mods, 'interp': interp}


def diff(a, b):
    out = []
    if a['builtins'] != b['builtins']:
        out.append('builtins: ' + ','.join(sorted(set(a['builtins'].items()) ^ set(b['builtins'].items()))[0][:1]))
    if a['modules'] != b['modules']:
        out.append('sys.modules: ' + ','.join(sorted(a['modules'] ^ b['modules'])[:4]))
    if a['environ'] != b['environ']:
        out.append('os.environ')
    if a['cwd'] != b['cwd']:
        out.append('cwd')
    for k in a.get('interp', {}):
        if a['interp'][k] != b.get('interp', {}).get(k):
            out.append('interpreter state: ' + k)
    for name in set(a['hszinc']) | set(b['hszinc']):
        da, db = a['hszinc'].get(name, {}), b['hszinc'].get(name, {})
        if da != db:
            keys = sorted(set(da.items()) ^ set(db.items()))
            out.append('%s globals: %s' % (name, ','.join(sorted(set(k for k, _ in keys))[:4])))
    return out


# ---- the payload x position x shape space --------------------------------------------------------------

CALLS = [('hszcanary', 'x', None), ('print', 'x', None), ('len', 'x', 1.0), ('eval', '1+1', 2.0), ('exec', 'pass', None), ('open', '/nonexistent/hszcanary', None),
         ('__import__', 'json', None), ('globals', '', None), ('compile', 'x', None), ('getattr', 'x', None), ('str', 'x', 'x'), ('float', '7', 7.0),
         ('repr', 'x', "'x'"), ('input', '', None), ('breakpoint', '', None), ('exit', '', None), ('type', 'x', None), ('vars', '', None), ('dir', '', None),
         ('NOT_FOUND', '', None), ('_get_path', '', None), ('Ref', 'x', None), ('hex', '00', None), ('b64', 'AAEC', None)]
BREAKOUTS = ['" + hszcanary(1) + "', '\\" + hszcanary(1) + \\"', "' + hszcanary(1) + '", '"); hszcanary(1); ("', 'x\nhszcanary(1)', 'x\\nhszcanary(1)',
             '\\', '\\\\" + hszcanary(1) + "', '%s' % 'x" if hszcanary(1) else "y', '{hszcanary(1)}', '$(hszcanary)', '`hszcanary(1)`', "__import__('os').getcwd()",
             'x"))\n  hszcanary(1)\n  return (("', u'é" + hszcanary(1) + "é', '\\u0022 + hszcanary(1) + \\u0022']
NAMES = ['hszcanary', 'print', 'eval', 'exec', 'open', 'id', 'len', 'globals', 'true', 'false', 'none', 'lambda', 'import', 'self', 'entity', 'grid', 'def', 'return',
         'xNOT_FOUND', 'o__class__', 'a__import__']
SHAPES = [('alone', '%s'), ('and-left', '%s and zz'), ('or-right', 'zz or %s'), ('parens', '(%s)'), ('nested', 'zz and (yy or %s)')]
# tags every probe row carries so that the canary atom decides the row's fate under each shape
PRESENT = {'alone': (), 'and-left': ('zz',), 'or-right': (), 'parens': (), 'nested': ('zz',)}


def zstr(s):
    """ZINC/filter string literal of s (the grammar's own escapes)."""
    out = []
    for c in s:
        if c in '"\\$':
            out.append('\\' + c)
        elif c == '\n':
            out.append('\\n')
        elif ord(c) < 0x20:
            out.append('\\u%04x' % ord(c))
        else:
            out.append(c)
    return '"' + ''.join(out) + '"'


def cases():
    """(position, atom text, benign twin atom text, rows spec) — rows spec: list of (value builder name, arg, expected-selected)"""
    out = []
    for name, arg, evaluated in CALLS:
        twin = 'Foo%s' % ('x' * max(0, len(name) - 3))
        atom, twin_atom = 'a == %s(%s)' % (name, zstr(arg)), 'a == %s(%s)' % (twin, zstr(arg))
        out.append(('xstr-type', atom, twin_atom, ('xstr', name, arg, evaluated)))
        out.append(('xstr-in-list', 'a == [%s(%s)]' % (name, zstr(arg)), 'a == [%s(%s)]' % (twin, zstr(arg)), ('list-xstr', name, arg, evaluated)))
        out.append(('xstr-in-dict', 'a == {k:%s(%s)}' % (name, zstr(arg)), 'a == {k:%s(%s)}' % (twin, zstr(arg)), ('dict-xstr', name, arg, evaluated)))
        out.append(('xstr-after-path', 'r->a == %s(%s)' % (name, zstr(arg)), 'r->a == %s(%s)' % (twin, zstr(arg)), None))
    for b in BREAKOUTS:
        benign = ''.join('x' if c.isalnum() else ('_' if c not in '\n' else 'x') for c in b)
        out.append(('str', 'a == %s' % zstr(b), 'a == %s' % zstr(benign), ('str', b)))
        out.append(('xstr-payload', 'a == Foo(%s)' % zstr(b), 'a == Foo(%s)' % zstr(benign), ('xstr', 'Foo', b, None)))
        out.append(('ref-display', 'a == @x %s' % zstr(b), 'a == @x %s' % zstr(benign), ('ref', 'x', b)))
        out.append(('list-element', 'a == [1, %s]' % zstr(b), 'a == [1, %s]' % zstr(benign), None))
        out.append(('dict-value', 'a == {k:%s}' % zstr(b), 'a == {k:%s}' % zstr(benign), None))
        if '`' not in b and '\n' not in b and '\\' not in b:
            out.append(('uri', 'a == `%s`' % b, 'a == `%s`' % benign, ('uri', b)))
    for n in NAMES:
        out.append(('tag-name', n, 'tagname', None))
        out.append(('tag-name-cmp', '%s == 1' % n, 'tagname == 1', None))
        out.append(('path-segment', 'r->%s' % n, 'r->tagname', None))
        out.append(('not-tag', 'not %s' % n, 'not tagname', None))
        out.append(('ref-name', 'a == @%s' % n, 'a == @tagname', ('ref', n, None)))
        out.append(('unit', 'a == 5%s' % n, 'a == 5kg', None))
        out.append(('dict-key', 'a == {%s:1}' % n, 'a == {tagname:1}', None))
        out.append(('zone', 'a == 2020-01-01T00:00:00Z %s' % n.capitalize(), 'a == 2020-01-01T00:00:00Z Tagname', None))
        out.append(('bin', 'a == Bin(%s)' % n, 'a == Bin(tagname)', None))
    return out


INVALID = ['(' * 80 + 'a', '(' * 70 + 'a' + ')' * 69, 'a == "' + '(' * 90 + '" b', '(a) ' * 80 + 'b', 'a and ' + '(' * 60, ')' * 100,
           'a == 1 ; import os', 'import os', 'a; b', 'a == 1+1', 'a == (1)', 'a == [x for x in y]', 'lambda: 0', 'a == "x" "y"', 'a == b',
           'a == hszcanary', 'a == hszcanary()', 'a == hszcanary(1)', 'a == hszcanary(x)', 'a == hszcanary("x").y', 'a == hszcanary("x")()', 'a == "x" + "y"',
           'a == -', 'a ==', '== 1', 'a and', 'and a', '()', '(a', 'a)', 'a->', '->a', 'a == 1 or', 'a === 1', 'a = 1', 'a <> 1',
           'a == {k:hszcanary}', 'a == [hszcanary(1)]', '__import__', '_a', 'A', '1', '"x"', 'a == ${x}', 'a == `x', 'a == "x', 'a\nb', 'a == 1\nimport os',
           'a == 0x10', 'a == None', 'a == True', 'a.b', 'a[0]', 'a(1)', 'a == f"x"', "a == 'x'", 'a == r"x"', 'a == b"x"']


# characters that generic text tooling treats as blanks or line breaks but that are not filter syntax (the grammar skips
# blank, tab, CR and LF only), a zero-width mark and NUL: stray at the start, at the end and between tokens
STRAY = ['\x0b', '\x0c', '\x1c', '\x1d', '\x1e', '\x1f', u'\x85', u'\xa0', u'\u1680', u'\u2000', u'\u2003', u'\u2028', u'\u2029', u'\u202f', u'\u205f',
         u'\u3000', u'\ufeff', u'\u200b', '\x00', '\x7f']
# letters and digits beyond ASCII are not name characters (tag names, reference names): word-character classes of regex
# engines are Unicode-aware by default, the grammar is not
for _c in [u'\xe9', u'\u0430', u'\xb2', u'\uff41', u'\xdf', u'\u01c5', u'\u0301', u'\u200d']:
    INVALID += [u'a == @x%sy' % _c, u'a == @%s' % _c, u'a == [@x%s]' % _c, u'a == {k:@x%s}' % _c, u'x%sy' % _c, u'not x%s' % _c, u'r->x%s' % _c,
                u'x%s == 1' % _c]
for _c in STRAY:
    INVALID += ['a' + _c, _c + 'a', 'a' + _c + 'and b', _c + 'a == 1' + _c, 'a == "x"' + _c, 'not' + _c + 'a', 'a ' + _c, ' ' + _c + ' a']


# setters of interpreter- or process-wide state: evaluating a filter has no business calling them, not even to put the old
# value back afterwards (another thread sees the value in between); they are not audited by CPython, so they are wrapped
SETTERS = [('sys', 'setrecursionlimit'), ('sys', 'setswitchinterval'), ('sys', 'settrace'), ('sys', 'setprofile'),
           ('warnings', 'simplefilter'), ('warnings', 'filterwarnings'), ('warnings', 'resetwarnings'),
           ('locale', 'setlocale'), ('signal', 'signal'), ('os', 'chdir'), ('os', 'umask'), ('threading', 'settrace'), ('threading', 'setprofile'),
           ('gc', 'disable'), ('gc', 'enable'), ('gc', 'set_threshold'), ('time', 'tzset')]


def _wrap_setters():
    import importlib
    saved = []
    for modname, attr in SETTERS:
        try:
            mod = importlib.import_module(modname)
            real = getattr(mod, attr)
        except Exception:  # noqa
            continue

        def make(real, label):
            def wrapper(*a, **k):
                if ARMED[0]:
                    EVENTS.append(('global-setter', label))
                return real(*a, **k)
            return wrapper
        setattr(mod, attr, make(real, '%s.%s' % (modname, attr)))
        saved.append((mod, attr, real))
    return saved


def run_filter(hs, g, text):
    """-> (outcome, events, flag, stdout-writes)"""
    import gc
    del EVENTS[:]
    del FLAG[:]
    rec = Recorder()
    saved = sys.stdout
    sys.stdout = rec
    gc.disable()
    wrapped = _wrap_setters()
    ARMED[0] = True
    try:
        try:
            res = g.filter(text)
            out = ('ok', tuple(r.get('id') for r in res), None, res)
        except BaseException as e:  # noqa
            out = ('raise', type(e).__name__, type(e).__module__)
    finally:
        ARMED[0] = False
        for mod, attr, real in wrapped:
            setattr(mod, attr, real)
        gc.enable()
        sys.stdout = saved
    return out, list(EVENTS), list(FLAG), rec.n


def probe_rows(hs, spec, shape='alone'):
    rows = _probe_rows(hs, spec)
    for r in rows:
        r.pop('zz', None)
        r.pop('yy', None)
        for t in PRESENT[shape]:
            r[t] = hs.MARKER
    return rows


def _probe_rows(hs, spec):
    # two rows share the id 'plain' (and two ids, 7 and '7', one string form): lookups answer with the LATER row, filters may select the earlier
    rows = [{'id': 'plain', 'a': 'zz'}, {'id': 'noa'},
            {'id': hs.Ref('tgt', 'Target display'), 'a': 'zz'}, {'id': 'src', 'r': hs.Ref('tgt')},
            {'id': 7, 'a': 'zz'}, {'id': 'plain'}, {'id': '7'}]
    if spec is None:
        return rows
    kind = spec[0]
    if kind in ('xstr', 'list-xstr', 'dict-xstr'):
        name, arg, evaluated = spec[1], spec[2], spec[3]
        try:
            x = hs.XStr(name, arg)
        except Exception:  # noqa
            x = None
        wrap = {'xstr': lambda v: v, 'list-xstr': lambda v: [v], 'dict-xstr': lambda v: {'k': v}}[kind]
        if x is not None:
            rows.append({'id': 'data', 'a': wrap(x), 'zz': hs.MARKER, 'yy': hs.MARKER})
        if evaluated is not None:
            rows.append({'id': 'evaluated', 'a': wrap(evaluated), 'zz': hs.MARKER, 'yy': hs.MARKER})
        rows.append({'id': 'canary-result', 'a': wrap('canary-ran'), 'zz': hs.MARKER, 'yy': hs.MARKER})
    elif kind == 'str':
        rows.append({'id': 'data', 'a': spec[1], 'zz': hs.MARKER, 'yy': hs.MARKER})
    elif kind == 'uri':
        rows.append({'id': 'data', 'a': hs.Uri(spec[1]), 'zz': hs.MARKER, 'yy': hs.MARKER})
    elif kind == 'ref':
        rows.append({'id': 'data', 'a': hs.Ref(spec[1], spec[2]) if spec[2] is not None else hs.Ref(spec[1]), 'zz': hs.MARKER, 'yy': hs.MARKER})
    return rows


def lookup_answers(hs, g):
    """What the grid answers to id lookups (observable state beyond the rows); compared with a never-filtered twin."""
    out = []
    for key in ('plain', 'src', 'tgt', '@tgt', hs.Ref('tgt'), hs.Ref('tgt', 'Target display'), 'data', 'nowhere', '7', 'noa'):
        try:
            got = g.get(key)
            out.append(None if got is None else [k for k, x in enumerate(g) if x is got])
        except Exception as e:  # noqa
            out.append('raised ' + type(e).__name__)
    return out


def task(items):
    import hszinc as hs
    import pyparsing
    ensure_hook()
    st = Stats()
    # warm-up: lazy imports, regex caches and first-use initialisation must not count as effects
    warm = hs.Grid(version='3.0', columns=[('id', []), ('a', [])])
    warm.append({'id': 'w', 'a': 1.0})
    for t in ('a', 'not a', 'a == 1', 'a == 1kg', 'a == "x"', 'a == `u`', 'a == @r "d"', 'a == Foo("x")', 'a == hex("00")', 'a == b64("AAEC")', 'a == 2020-01-01',
              'a == 12:00:00', 'a == 2020-01-01T00:00:00Z UTC', 'a == 2020-01-01T00:00:00Z Nowhere', 'a == C(1,2)', 'a == [1]', 'a == {k:1}', 'a == Bin(x)', 'a == true',
              'r->a == 1', 'a and (b or c)', 'a == NA', 'a <'):
        try:
            warm.filter(t)
        except BaseException:  # noqa
            pass
    for pos, atom, twin_atom, spec, (shape, fmt) in items:
        text, twin = fmt % atom, fmt % twin_atom
        case = {'kind': 'canary', 'position': pos, 'shape': shape, 'filter': text, 'twin': twin, 'spec': list(spec) if spec else None}
        sig = {'position': pos, 'shape': shape}
        g = hs.Grid(version='3.0', columns=[('id', []), ('a', []), ('r', []), ('zz', []), ('yy', [])])
        twin_grid = hs.Grid(version='3.0', columns=[('id', []), ('a', []), ('r', []), ('zz', []), ('yy', [])])
        for r in probe_rows(hs, spec, shape):
            g.append(r)
        for r in probe_rows(hs, spec, shape):
            twin_grid.append(r)
        before_grid = O.observe_grid(g, hs)
        answers_before = lookup_answers(hs, twin_grid)
        g.get('nowhere')                # the id index of the source exists before the filters run (a parsed grid has one too)
        # twin first (same kind, same position), then the canary
        tout, tev, tflag, tw = run_filter(hs, g, twin)
        snap0 = snapshot()
        out, ev, flag, w = run_filter(hs, g, text)
        snap1 = snapshot()
        st.count('executions', 2)
        problems = []
        if flag:
            problems.append(('payload-executed-canary-called', {}))
        bad = [e for e in ev if not (e[0] in ('compile', 'exec') and e[1] == 'generated-filter')]
        if bad:
            problems.append(('payload-caused-audited-effect', {'event': bad[0][0]}))
        # differential: apart from compiling/executing its own generated def (which the cache may skip for a twin
        # seen before), the canary filter must raise exactly the audit events of its benign twin
        tbad = [e for e in tev if not (e[0] in ('compile', 'exec') and e[1] == 'generated-filter')]
        if sorted(bad) != sorted(tbad):
            problems.append(('audit-events-differ-from-benign-twin', {'extra': str(sorted(set(bad) ^ set(tbad))[:2])[:80]}))
        if w != tw:
            problems.append(('payload-wrote-to-stdout', {}))
        d = diff(snap0, snap1)
        if d:
            problems.append(('global-state-changed', {'what': d[0][:60]}))
        after_grid = O.observe_grid(g, hs)
        if N.same(before_grid, after_grid, 'exact'):
            problems.append(('filter-modified-the-grid', {}))
        if lookup_answers(hs, g) != answers_before:
            problems.append(('filter-changed-what-the-grid-answers', {}))
        if out[0] == 'ok' and out[3] is not None:
            # the RESULT grid answers lookups with its own rows only
            res = out[3]
            mine = list(res)
            for key in ('plain', 'noa', '7', 'src', 'data'):
                try:
                    hit = res.get(key)
                except Exception as e:  # noqa
                    hit = None
                if hit is not None and not any(hit is r for r in mine):
                    problems.append(('filter-result-answers-lookups-with-rows-it-does-not-hold', {'key': key}))
                    break
        if out[0] == 'ok':
            sel = set(out[1])
            if 'evaluated' in sel or 'canary-result' in sel:
                problems.append(('literal-was-evaluated-as-code', {'selected': sorted(sel & {'evaluated', 'canary-result'})[0]}))
        elif out[0] == 'raise':
            if not (out[1] in ('ParseException', 'ParseSyntaxException', 'ParseFatalException') and out[2].startswith('pyparsing')):
                if tout[0] == 'ok' or out[1] in ('SyntaxError', 'NameError', 'IndentationError'):
                    problems.append(('filter-failed-with-non-parse-error', {'exc': out[1]}))
        st.case((pos, shape, text), outcome=(out[0], out[1] if out[0] == 'raise' else len(out[1]), bool(problems)),
                sample={'position': pos, 'shape': shape, 'filter': text, 'outcome': out[0]} if pos in ('xstr-type', 'str') and shape == 'alone' else None)
        for sym, extra in problems:
            st.fail(sym, dict(sig, **extra), case, {'filter': text, 'outcome': repr(out)[:200], 'events': [list(e) for e in ev][:8], 'twin_events': [list(e) for e in tev][:8]})
    return st


def invalid_task(texts):
    import hszinc as hs
    ensure_hook()
    st = Stats()
    g = hs.Grid(version='3.0', columns=[('id', []), ('a', [])])
    g.append({'id': 'r', 'a': 1.0})
    for text in texts:
        snap0 = snapshot()
        out, ev, flag, w = run_filter(hs, g, text)
        d = diff(snap0, snapshot())
        st.count('executions')
        case = {'kind': 'invalid', 'filter': text}
        if d:
            st.fail('global-state-changed', {'position': 'invalid-filter', 'what': d[0][:60]}, case, {'filter': text[:200], 'diff': d[:4]})
        st.case(('invalid', text), outcome=(out[0], out[1] if out[0] == 'raise' else 'ok'))
        if flag:
            st.fail('payload-executed-canary-called', {'position': 'invalid-filter'}, case, {'filter': text})
        if out[0] == 'ok':
            st.fail('invalid-filter-accepted', {'position': 'invalid-filter'}, case, {'filter': text, 'selected': repr(out[1])})
        elif not (out[1] in ('ParseException', 'ParseSyntaxException') and out[2].startswith('pyparsing')):
            st.fail('invalid-filter-not-rejected-with-parse-error', {'exc': out[1]}, case, {'filter': text})
        # every entry point takes the same decision on the same text — also on a grid without rows (nothing to evaluate)
        from hszinc import grid_filter as gf
        empty = hs.Grid(version='3.0', columns=[('id', []), ('a', [])])
        emptied = g.filter('zz_absent_tag')
        for name, call in (('Grid.filter(text, limit)', lambda: g.filter(text, 1)), ('filter_function', lambda: gf.filter_function(text)),
                           ('parse_filter', lambda: gf.parse_filter(text)), ('Grid.filter on a grid without rows', lambda: empty.filter(text)),
                           ('Grid.filter(text, limit) on a grid without rows', lambda: empty.filter(text, 2)),
                           ('Grid.filter on an empty filter result', lambda: emptied.filter(text))):
            try:
                call()
                verdict = 'accepted'
            except BaseException as e:  # noqa
                verdict = type(e).__name__
            st.count('executions')
            if verdict not in ('ParseException', 'ParseSyntaxException'):
                st.fail('invalid-filter-accepted' if verdict == 'accepted' else 'invalid-filter-not-rejected-with-parse-error',
                        {'position': 'invalid-filter', 'entry': name, 'exc': verdict}, case, {'filter': text, 'entry_point': name})
        bad = [e for e in ev if not (e[0] in ('compile', 'exec') and e[1] == 'generated-filter')]
        if bad:
            st.fail('payload-caused-audited-effect', {'position': 'invalid-filter', 'event': bad[0][0]}, case, {'events': [list(e) for e in ev][:6]})
    return st


def incomparable_task(dummy):
    """Comparisons that cannot be made (other unit, other kind, absent, NaN) are simply false: evaluating them changes no
    global state either (warning filters, registries, hooks ...)."""
    import datetime
    import hszinc as hs
    ensure_hook()
    st = Stats()
    g = hs.Grid(version='3.0', columns=[('id', []), ('a', []), ('b', [])])
    g.append({'id': 'w', 'a': hs.Quantity(5.0, 'W'), 'b': hs.MARKER})
    g.append({'id': 'plain', 'a': 5.0})
    g.append({'id': 'text', 'a': 'five'})
    g.append({'id': 'date', 'a': datetime.date(2020, 1, 1)})
    g.append({'id': 'nan', 'a': float('nan')})
    g.append({'id': 'ref', 'r': hs.Ref('w')})
    # warm-up: lazy imports (strptime ...) and first-use initialisation of every literal kind must not count as effects; the
    # warm-up filters differ from the measured ones and only meet comparable values
    warm = hs.Grid(version='3.0', columns=[('id', []), ('a', [])])
    warm.append({'id': 'w', 'a': 1.0})
    for t in ('a == 1', 'a == 1kg', 'a == "y"', 'a == `v`', 'a == @q', 'a == 2021-02-03', 'a == 13:00:00', 'a == 2021-02-03T00:00:00Z UTC', 'a == false', 'a == INF', 'q->a'):
        try:
            warm.filter(t)
        except BaseException:  # noqa
            pass
    try:
        from hszinc import zoneinfo as _zi
        _zi.get_tz_map()
        _zi.get_tz_rmap()
        unmapped = sorted(set(_zi.HAYSTACK_TIMEZONES) - set(_zi.get_tz_map()))
    except Exception:  # noqa
        unmapped = []
    # official Haystack zone names this host cannot map behave like invented ones: nothing is learnt from a filter
    zone_texts = tuple('a == 2020-06-01T12:00:00-03:00 %s' % z for z in unmapped) + tuple('a < 2020-06-01T12:00:00-05:00 %s' % z for z in unmapped[:4])
    for text in zone_texts + ('a == 2021-03-04T05:06:07Z Atlantis', 'a < 2021-03-04T05:06:07+01:00 Not_A_Zone', 'a == 5kW', 'a != 5kW', 'a < 5kW', 'a >= 5kW', 'a == 5kW and b', 'b or a > 1kW', 'r->a > 1kW', 'a < "x"', 'a > 2020-01-01', 'a == 12:00:00',
                 'a < @r', 'a > `u`', 'a <= NaN', 'a == 5', 'a < true'):
        g.filter('a')                                    # nothing new is imported or compiled lazily inside the measured call
        snap0 = snapshot()
        out, ev, flag, w = run_filter(hs, g, text)
        d = diff(snap0, snapshot())
        st.count('executions')
        case = {'kind': 'incomparable', 'filter': text}
        st.case(('incomparable', text), outcome=(out[0], out[1] if out[0] == 'raise' else 'ok'))
        if d:
            st.fail('global-state-changed', {'position': 'incomparable-comparison', 'what': d[0][:60]}, case, {'filter': text, 'diff': d[:4]})
        if out[0] != 'ok':
            st.fail('filter-failed-with-non-parse-error', {'position': 'incomparable-comparison', 'exc': out[1]}, case, {'filter': text})
        if w:
            st.fail('payload-wrote-to-stdout', {'position': 'incomparable-comparison'}, case, {'filter': text})
        bad = [e for e in ev if not (e[0] in ('compile', 'exec') and e[1] == 'generated-filter')]
        if bad:
            st.fail('payload-caused-audited-effect', {'position': 'incomparable-comparison', 'event': bad[0][0]}, case, {'events': [list(e) for e in ev][:6]})
    return st


PINT_UNIT_PAYLOADS = ['hszcanary', 'print', 'eval', 'exec', 'open', 'globals', 'lambda', 'self', 'entity', 'foo', 'hszunit', 'zz_q', 'Frobs', u'\u00b5frob',
                      'kg', 'kW', 'm', u'\u00b0C', '%']
PINT_FORMS = ['a == 5%s', 'a != 5%s', 'a < 5%s', 'a >= -1.5%s', 'b or a > 1%s', 'a == 5%s and b', 'r->a > 1%s', 'a == [5%s]', 'a == {k:5%s}']


def _registry_fingerprint(hs):
    """The definitions of the process-wide unit registry that hszinc shares with the program (names only; caches are not definitions)."""
    u = hs.ureg
    out = {}
    for attr in ('_units', '_prefixes', '_suffixes', '_dimensions', '_contexts', '_groups', '_systems'):
        d = getattr(u, attr, None)
        if d is not None:
            try:
                out[attr] = frozenset(str(k) for k in d)
            except TypeError:
                pass
    return out


def pint_task(units):
    """The library's other Quantity mode (hszinc.use_pint): unit positions of a filter under a shared Pint registry.  A unit the registry
    does not know stays unknown (nothing from the filter text is *defined* anywhere), known units define nothing new once they were
    used before, and the usual monitors (audit events, canary, setters, global-state diff) stay silent."""
    import hszinc as hs
    st = Stats()
    if not getattr(hs, 'PINT_AVAILABLE', False):
        return st
    import pint
    ensure_hook()
    hs.use_pint(True)
    try:
        g = hs.Grid(version='3.0', columns=[('id', []), ('a', []), ('b', []), ('r', [])])
        g.append({'id': 'w', 'a': hs.Quantity(5.0, 'kW'), 'b': hs.MARKER})
        g.append({'id': 'plain', 'a': 5.0})
        g.append({'id': 'ref', 'r': hs.Ref('w')})
        for t in ('a', 'a == 5kg', 'a < 5kg', 'b or a > 1kg', 'r->a > 1kg', 'a == [5kg]', 'a == {k:5kg}'):
            try:
                g.filter(t)
            except BaseException:  # noqa
                pass
        for unit in units:
            # does the registry know the unit?  (asking also lets Pint derive prefixed forms of known units now, not inside the measured call)
            try:
                hs.ureg.parse_units(hs.pintutil.to_pint(unit))
                known = True
            except pint.errors.UndefinedUnitError:
                known = False
            except Exception:  # noqa
                known = None
            for form in PINT_FORMS:
                text = form % unit
                fp0 = _registry_fingerprint(hs)
                snap0 = snapshot()
                out, ev, flag, w = run_filter(hs, g, text)
                d = diff(snap0, snapshot())
                fp1 = _registry_fingerprint(hs)
                st.count('executions')
                case = {'kind': 'pint', 'filter': text, 'unit': unit}
                sig = {'position': 'unit (Pint mode)', 'unit_known_to_pint': known}
                st.case(('pint', text), outcome=(out[0], out[1] if out[0] == 'raise' else 'ok', known))
                if fp0 != fp1:
                    new = sorted(set().union(*[fp1[k] - fp0.get(k, frozenset()) for k in fp1]))[:4]
                    st.fail('global-state-changed', dict(sig, what='unit registry gained definitions'), case, {'filter': text, 'new_names': new})
                if known is False:
                    try:
                        hs.ureg.parse_units(hs.pintutil.to_pint(unit))
                        st.fail('global-state-changed', dict(sig, what='unknown unit became known to the shared registry'), case, {'filter': text})
                    except pint.errors.UndefinedUnitError:
                        pass
                    except Exception:  # noqa
                        pass
                if d:
                    st.fail('global-state-changed', dict(sig, what=d[0][:60]), case, {'filter': text, 'diff': d[:4]})
                if flag:
                    st.fail('payload-executed-canary-called', sig, case, {'filter': text})
                if w:
                    st.fail('payload-wrote-to-stdout', sig, case, {'filter': text})
                bad = [e for e in ev if not (e[0] in ('compile', 'exec') and e[1] == 'generated-filter')]
                if bad:
                    st.fail('payload-caused-audited-effect', dict(sig, event=bad[0][0]), case, {'events': [list(e) for e in ev][:6]})
                if out[0] == 'raise' and out[1] in ('SyntaxError', 'NameError', 'IndentationError'):
                    st.fail('filter-failed-with-non-parse-error', dict(sig, exc=out[1]), case, {'filter': text})
    finally:
        hs.use_pint(False)
    if type(hs.Quantity(1, 'kg')).__name__ != 'BasicQuantity':
        raise HarnessError('the Quantity mode was not put back after the Pint sub-space')
    return st


def run(ctx):
    items = [(pos, atom, twin, spec, sh) for pos, atom, twin, spec in cases() for sh in SHAPES]
    seeded_rng(ctx.seed, 'c12').shuffle(items)
    st = Stats()
    for part in pmap(task, [(c,) for c in chunks(items, ctx.jobs * 2)], ctx.jobs):
        st.merge(part)
    for part in pmap(invalid_task, [(c,) for c in chunks(INVALID, ctx.jobs)], ctx.jobs):
        st.merge(part)
    for part in pmap(incomparable_task, [(0,), (1,)], ctx.jobs):
        st.merge(part)
    before_pint = st.c.get('executions', 0)
    for part in pmap(pint_task, [(c,) for c in chunks(PINT_UNIT_PAYLOADS, ctx.jobs)], ctx.jobs):
        st.merge(part)
    pint_exec = st.c.get('executions', 0) - before_pint
    ex = st.c.get('executions', 0)
    st.c['states'], st.c['transitions'] = ex + 1, ex
    return {
        'stats': st, 'exhaustive': True,
        'rule': 'complete product of %d (position, payload) cases x %d enclosing shapes, each run after its benign twin, plus %d texts that are not '
                'filters (each at 7 entry points incl. grids without rows), plus 15 incomparable comparisons under the global-state diff, plus %d unit payloads x %d '
                'filter forms in Pint mode (hszinc.use_pint) under a fingerprint of the shared unit registry; setters of '
                'interpreter-wide state are wrapped during every evaluation; distinct = distinct filter text; every case is non-trivial (it carries a canary payload)' % (len(cases()), len(SHAPES), len(INVALID), len(PINT_UNIT_PAYLOADS), len(PINT_FORMS)),
        'coverage': {'bounds': {'callables': [c[0] for c in CALLS], 'breakouts': len(BREAKOUTS), 'names': NAMES, 'shapes': [s[0] for s in SHAPES],
                                'positions': sorted(set(c[0] for c in cases())), 'invalid_texts': len(INVALID),
                                'pint_mode_unit_payloads': PINT_UNIT_PAYLOADS, 'pint_mode_forms': PINT_FORMS, 'executions_pint_mode': pint_exec}},
        'assumptions': ['monitors: sys.addaudithook (compile/exec of anything but the generated def, open, import, os.*, subprocess, socket, ...), a canary '
                        'builtin, a stdout recorder, a semantic probe row only selected if the payload was evaluated, and a diff of builtins / sys.modules / '
                        'os.environ / cwd / hszinc module globals (the generated functions, counter and cache of grid_filter excepted)',
                        'effects no monitor can see (pure computation returning a value no probe row matches) are outside the check'],
    }


def replay(case, st):
    if case['kind'] == 'incomparable':
        sub = incomparable_task(0)
        for f in sub.failures:
            if f['case']['filter'] == case['filter']:
                st.fail(f['symptom'], f['sig'], f['case'], f['detail'])
        return
    if case['kind'] == 'invalid':
        st.merge(invalid_task([case['filter']]))
        return
    if case['kind'] == 'pint':
        sub = pint_task([case['unit']])
        for f in sub.failures:
            if f['case']['filter'] == case['filter']:
                st.fail(f['symptom'], f['sig'], f['case'], f['detail'])
        return
    fmt = dict(SHAPES)[case['shape']]
    for pos, atom, twin, spec in cases():
        if pos == case['position'] and fmt % atom == case['filter']:
            st.merge(task([(pos, atom, twin, spec, (case['shape'], fmt))]))
            return
    raise HarnessError('case not found in the current payload table')
