# -*- coding: utf-8 -*-
"""C03 — the ZINC reader accepts the whole surface syntax and decodes it correctly.

Driver A, grammar-directed: an independent writer (ref/refzinc.py) renders base grids with a choice
at every token (separator blanks, N vs empty cell, `_` digit groups, exponent forms, every escape
form per character, LF/CRLF, trailing blanks, list/dict layouts, T/t Z/z, fraction digits, final
newline present/absent/blank line), x input form (str / bytes in utf-8, utf-16, latin-1) x single
flag x 0-3 grids per document.  All documents with <= d non-canonical spellings are enumerated.
"""
from mc.explore import Stats, explore, HarnessError
from ref import neutral as N, observe as O, refzinc
from ref.catalogue import _dt, _fx

ONE = N.num(1.0)
MK = N.MARKER


def base_grids():
    B = []
    # 0: 2.0 basics
    B.append(N.mkgrid('2.0', [('dis', ('str', 'Site')), ('mk', MK)],
                      [('name', [('dis', ('str', 'Name'))]), ('val', [('unit', ('str', 'kW')), ('mk', MK)]), ('ok', [])],
                      [(('str', 'a b'), N.num(1000.0), ('bool', True)), (N.NULL, N.num(-1.5, 'kW'), N.NULL), (N.REMOVE, N.NULL, ('bool', False))]))
    # 1: numbers
    B.append(N.mkgrid('2.0', [('n', N.num(12345.0))],
                      [('a', []), ('b', [])],
                      [(N.num(1e22), N.num(0.001, '%')), (N.num(float('inf')), N.num(float('nan'))), (N.num(float('-inf')), N.num(1234567.0, 'kg')),
                       (N.num(0.0), N.num(-0.5, u'°C')), (N.num(7.0, u'\u2126'), N.num(7.0, u'k\u212a'))]))
    # 2: text-like kinds
    B.append(N.mkgrid('2.0', [('s', ('str', 'a"b\\c$d\ne\tf'))],
                      [('str', []), ('uri', []), ('ref', [])],
                      [(('str', u'é€'), ('uri', 'http://x/y?z=1&w=2;v'), ('ref', 'a-b:c.d~e_f', None)),
                       (('str', ''), ('uri', 'a`b\\c'), ('ref', 'r1', 'Dis "x"')),
                       (('bin', 'text/plain'), N.NULL, ('ref', 'r2', '')),
                       # characters that are legal raw inside ZINC text but that generic text tooling treats as
                       # line breaks / blanks / marks: DEL, NEL, NBSP, LS, PS, BOM, a non-character, an astral one
                       (('str', u'\x7f\x85\xa0\u2028\u2029\ufeff\uffff\U0001f600'), ('uri', u'u\x7f\x85\xa0\u2028\u2029\ufeff'), ('ref', 'r3', u'\x85\u2028\u3000')),
                       # text that Unicode normalisation would rewrite (decomposed accent, OHM / KELVIN / ANGSTROM signs, a ligature), raw
                       (('str', u'e\u0301 \u2126\u212a\u212b \ufb01 \U0002f800'), ('uri', u'e\u0301/\u212b'), ('ref', 'r4', u'A\u030a'))]))
    # 3: temporal + coordinates
    B.append(N.mkgrid('2.0', [('ts', _dt('UTC', 2020, 6, 1, 12, 0, 0))],
                      [('d', []), ('t', []), ('dt', []), ('c', [])],
                      [(('date', 2020, 2, 29), ('time', 12, 34, 56, 100000), _dt('London', 2020, 6, 1, 12, 0, 0, 123456), ('coord', 37.545826, -77.449188)),
                       (('date', 1970, 1, 1), ('time', 0, 0, 0, 0), _fx(-300, 2020, 1, 1, 0, 0, 0), ('coord', -0.5, 0.25)),
                       (N.NULL, ('time', 23, 59, 59, 999999), _dt('New_York', 2020, 11, 1, 5, 30, 0), N.NULL),
                       # negative offsets that are not whole hours (named and zone-less), a positive one with minutes, a year below 1000
                       (('date', 999, 1, 2), ('time', 0, 0, 0, 1), _dt('St_Johns', 2020, 6, 1, 12, 0, 0), ('coord', 0.0, -0.0)),
                       (('date', 1, 1, 1), ('time', 7, 51, 43, 249), _fx(-570, 2020, 6, 1, 12, 0, 0), N.NULL),
                       (N.NULL, N.NULL, _fx(345, 2020, 6, 1, 12, 0, 0, 500000), N.NULL)]))
    # 4: 3.0 collections
    B.append(N.mkgrid('3.0', [('l', ('list', (ONE, ('str', 'x'))))],
                      [('na', []), ('list', []), ('dict', [])],
                      [(N.NA, ('list', ()), N.mkdict([])),
                       (N.NULL, ('list', (ONE, N.NULL, ('list', (MK, ('str', 'a,b'))))), N.mkdict([('a', MK), ('b', N.num(2.0, 'kg')), ('c', ('str', 'x y'))])),
                       (('xstr', 'hex', bytes.fromhex('deadbeef')), ('list', (('ref', 'r', 'd'), N.NA)), N.mkdict([('k', N.mkdict([('n', ('list', (ONE,)))]))])),
                       # values that are falsy in Python, as dict values and as list elements
                       (N.NULL, ('list', (N.num(0.0), ('str', ''), ('bool', False), ('list', ()), N.mkdict([]), ('uri', ''))),
                        N.mkdict([('z', N.num(0.0)), ('s', ('str', '')), ('f', ('bool', False)), ('n', N.NULL), ('l', ('list', ())), ('d', N.mkdict([])),
                                  ('u', ('uri', '')), ('g', N.mkgrid('3.0', [], [('e', [])], [])), ('q', N.num(0.0, 'kW')), ('t', ('time', 0, 0, 0, 0))]))]))
    # 5: nested grid, collections in metadata
    inner = N.mkgrid('3.0', [('im', ('str', 'in'))], [('x', []), ('y', [('u', MK)])], [(ONE, ('str', 'q')), (N.NULL, N.NA)])
    B.append(N.mkgrid('3.0', [('d', N.mkdict([('a', ONE)])), ('mk', MK)],
                      [('g', [('lm', ('list', (('str', 'm'), ONE)))]), ('x', [])],
                      [(inner, ('xstr', 'Foo', 'pay"load')), (N.NULL, ('str', 'after'))]))
    # 6: single-column grids and no rows
    B.append(N.mkgrid('3.0', [], [('only', [])], [(('str', 'x'),), (N.NULL,), (N.num(5.0),)]))
    B.append(N.mkgrid('2.0', [('empty', MK)], [('a', []), ('b', [('m', ('str', 'x'))])], []))
    # 8: compact 3.0 grid (cheap to parse, so it gets the deepest spelling bound)
    B.append(N.mkgrid('3.0', [], [('a', []), ('b', []), ('c', [])],
                      [(N.NULL, ('list', (ONE, N.NULL)), N.mkdict([('k', MK), ('v', ('str', 'x'))])),
                       (N.NA, N.NULL, ('xstr', 'Foo', 'p')), (('list', ()), N.mkdict([]), N.NULL)]))
    # 9: text whose latin-1 / cp1252 bytes happen to be well-formed UTF-8 (what mis-decoded UTF-8 looks like): only the caller's charset
    # says which reading is meant
    B.append(N.mkgrid('2.0', [('note', ('str', u'\u00c3\u00a9'))], [('t', []), ('q', [])],
                      [(('str', u'caf\u00c3\u00a9 \u00c2\u00b0'), N.num(21.5, u'\u00c2\u00b0C')), (('uri', u'http://x/\u00c3\u00bc'), N.NULL)]))
    return B


BASE = base_grids()
SMALL = N.mkgrid('2.0', [], [('p', []), ('q', [])], [(('str', 'left'), N.num(2.0))])


SINGLE_BYTE_CHARSETS = ['latin-1', 'cp1252']        # the quick tier keeps the first one (set in run() before the workers are forked)


def enc_forms(text):
    # BOM-less UTF-16 as well: nothing in the bytes says what they are, only the caller's charset does
    forms = [('str', None), ('bytes', 'utf-8'), ('bytes', 'utf-16'), ('bytes', 'utf-16-le')]
    for cs in SINGLE_BYTE_CHARSETS:
        try:
            text.encode(cs)
            forms.append(('bytes', cs))
        except UnicodeError:
            pass
    return forms


def run_case(ch, st, bi, _inner=False):
    """One document.  A failing document with several deviations is re-run with each deviation alone:
    if one of them already fails with the same symptom, the smaller case (explored too) carries the finding."""
    if _inner or len(ch.ov) < 2:
        return _run_case(ch, st, bi)
    from mc.explore import Ch
    tmp = Stats()
    _run_case(ch, tmp, bi)
    if tmp.failures:
        sym = tmp.failures[0]['symptom']
        for label, alt in ch.ov.items():
            sub, sst = Ch({label: alt}), Stats()
            try:
                _run_case(sub, sst, bi)
                sub.check_used()
            except HarnessError:
                continue
            if any(f['symptom'] == sym for f in sst.failures):
                tmp.failures, tmp.nfail = [], 0
                tmp.count('failures_subsumed_by_smaller_case')
                break
    st.merge(tmp)


def _run_case(ch, st, bi):
    import hszinc as hs
    g = BASE[bi]
    ngrids = ch.choose('ngrids', [1, 2, 3, 0])
    grids = [g, SMALL, g][:ngrids]
    sp = ch.choose
    text = refzinc.Writer(sp).document(grids)
    form = ch.choose('form', enc_forms(text))
    single = ch.choose('single', [True, False])
    src = text if form[0] == 'str' else text.encode(form[1])
    kw = {'charset': form[1]} if form[1] not in (None, 'utf-8') else {}
    devs = sorted(ch.used)
    case = {'base': bi, 'ov': dict(ch.ov)}
    classes = sorted(set(_label_class(l) for l in devs))
    sig = {'spellings': '|'.join(classes) or '-'}
    # the entry point is a choice too: the same text as a nested-grid literal through the scalar API (which does not pass through
    # parse()'s own pre-processing of documents)
    entry = ch.choose('entry', ['parse', 'scalar'])
    devs = sorted(ch.used)
    classes = sorted(set(_label_class(l) for l in devs))
    sig = {'spellings': '|'.join(classes) or '-'}
    if entry == 'scalar':
        # (a nested-grid literal is a 3.0 construct holding a 3.0 grid: a 2.0 grid inside a 3.0 value is mixed-version nesting, C10's subject)
        if g[1] != '3.0' or ngrids != 1 or not single or not (text.endswith('\n') and not text.endswith('\n\n') and not text.endswith('\n\r\n')):
            st.skip('scalar entry point: only one grid that ends with its line end fits a nested-grid literal')
            st.case((bi, tuple(sorted(ch.ov.items()))), nontrivial=False, outcome=('skip',))
            return
        lit = '<<' + text + '>>'
        src = lit if form[0] == 'str' else lit.encode(form[1])
    try:
        if entry == 'scalar':
            got = hs.parse_scalar(src, mode=hs.MODE_ZINC, version='3.0', **kw)
            if not isinstance(got, hs.Grid):
                st.fail('document-decoded-to-other-grid', dict(sig, where='nested-grid literal', kinds='grid->' + type(got).__name__), case,
                        {'document': lit, 'form': list(form)})
                return
        else:
            got = hs.parse(src, mode=hs.MODE_ZINC, single=single, **kw)
    except Exception as e:  # noqa
        st.case((bi, tuple(sorted(ch.ov.items()))), nontrivial=bool(devs), outcome=('raise', type(e).__name__, tuple(classes)),
                sample=None)
        st.fail('well-formed-document-rejected', dict(sig, exc=type(e).__name__), case, {'document': text, 'form': list(form), 'single': single, 'exc': repr(e)[:300]})
        return
    want = grids
    ok = True
    if single:
        if ngrids == 0:
            if got is not None:
                st.fail('empty-document-result', dict(sig, single=True), case, {'document': text, 'got': repr(got)[:200]})
                ok = False
            got_list, want = [], []
        else:
            got_list, want = [got], grids[:1]
    else:
        if not isinstance(got, list):
            st.fail('single-false-does-not-return-a-list', sig, case, {'document': text})
            return
        got_list = got
    if ok and len(got_list) != len(want):
        st.fail('grid-count-differs', dict(sig, expected=len(want), observed=len(got_list)), case, {'document': text, 'form': list(form)})
        ok = False
    if ok:
        for i, (w, o) in enumerate(zip(want, got_list)):
            try:
                obs = O.observe_grid(o, hs)
            except Exception as e:  # noqa
                st.fail('parse-result-unobservable', sig, case, {'document': text, 'exc': repr(e)})
                ok = False
                break
            d = N.same(w, obs, 'exact')
            if d:
                from props.rt import diff_class
                where, kinds = diff_class(d)
                st.fail('document-decoded-to-other-grid', dict(sig, where=where, kinds=kinds), case,
                        {'document': text, 'form': list(form), 'single': single, 'first_difference': N.show(d, 400)})
                ok = False
                break
    st.case((bi, tuple(sorted(ch.ov.items()))), nontrivial=bool(devs), outcome=(ok, tuple(classes)),
            sample={'base_grid': bi, 'deviations': devs, 'document': text[:200]})


def _label_class(label):
    """Class of a spelling choice: the last path component without indices."""
    import re
    tail = label.rsplit('.', 1)[-1]
    tail = re.sub(r'\d+', '', tail)
    if label in ('ngrids', 'form', 'single', 'charset_kw'):
        return label
    return tail or label


def fraction_task(fracs):
    import hszinc as hs
    st = Stats()
    for f in fracs:
        us = int(f[:6].ljust(6, '0'))
        for kind, text in (('time', '07:51:43.' + f), ('dt', '2020-06-15T07:51:43.' + f + 'Z UTC')):
            st.count('executions')
            try:
                got = O.observe(hs.parse_scalar(text, mode=hs.MODE_ZINC), hs)
            except Exception as e:  # noqa
                st.fail('well-formed-document-rejected', {'spellings': 'fraction', 'exc': type(e).__name__}, {'fraction': f, 'kind': kind}, {'text': text})
                continue
            ok = (got == ('time', 7, 51, 43, us)) if kind == 'time' else (got[0] == 'dt' and got[1] % 1000000 == us)
            if not ok:
                st.fail('document-decoded-to-other-grid', {'spellings': 'fraction', 'kinds': kind, 'digits': len(f)}, {'fraction': f, 'kind': kind},
                        {'text': text, 'expected_microseconds': us, 'observed': N.show(got)})
        st.inputs.add(hash(('frac', f)) & 0xffffffffffff)
    st.nontrivial |= st.inputs
    st.c['states'] = st.c.get('states', 0) + len(fracs)
    st.c['transitions'] = st.c.get('transitions', 0) + len(fracs)
    return st


def fractions(quick):
    out = []
    for n in (1, 2, 3):
        out += [str(i).zfill(n) for i in range(10 ** n)]
    out += [str(i).zfill(4) for i in range(0, 10 ** 4, 7 if quick else 1)]
    out += [str(i).zfill(6) for i in range(0, 10 ** 6, 997 if quick else 11)]
    from ref import hazards
    have = set(out)
    out += [f for f in ('%06d' % us for us in (hazards.microsecond_alphabet(250) if quick else hazards.microsecond_hazards())) if f not in have]
    return out


def run(ctx):
    from ref import selftest
    from mc.explore import pmap, chunks
    selftest.quick_selftest()
    st = Stats()
    if ctx.quick:
        del SINGLE_BYTE_CHARSETS[1:]
    fr = fractions(ctx.quick)
    for part in pmap(fraction_task, [(c,) for c in chunks(fr, ctx.jobs * 2)], ctx.jobs):
        st.merge(part)
    bounds = [{'second_fractions': len(fr)}]
    for bi in range(len(BASE)):
        d = (2 if bi not in (4, 5) else 1) if ctx.quick else (3 if bi in (6, 7, 8) else 2)
        before = st.c.get('executions', 0)
        explore(__name__, 'run_case', d, ctx.seed, ctx.jobs, st, args=(bi,))
        bounds.append({'base_grid': bi, 'max_deviations': d, 'documents': st.c.get('executions', 0) - before})
    return {
        'stats': st, 'exhaustive': True,
        'rule': 'every document the independent grammar-directed writer can produce for each base grid with at most max_deviations '
                'non-canonical choices (token spellings, line ends, final newline, number of grids, input encoding incl. BOM-less UTF-16 and single-byte charsets, single flag, entry point: parse() or the same text as a nested-grid literal through parse_scalar); distinct = '
                'distinct override set; non-trivial = at least one non-canonical choice',
        'coverage': {'bounds': {'base_grids': len(BASE), 'subspaces': bounds}},
        'assumptions': ['ref/refzinc.py writer emits only spellings that DESIGN.md Appendix A marks MUST-accept; it was self-tested against the '
                        'reference reader at start-up'],
    }


def replay(case, st):
    from mc.explore import Ch
    ch = Ch({k: v for k, v in case['ov'].items()})
    run_case(ch, st, case['base'])
    ch.check_used()
