# -*- coding: utf-8 -*-
"""C09 — malformed ZINC raises ZincParseException: never mis-parsed, never a crash.

Driver A, complete enumerations: (a) the one-step mutation closure of 12 small well-formed
documents (delete / insert c / replace by c at every offset for every c of a delimiter alphabet,
every truncation, every splice of two bracket-delimited spans), (b) every string of length <= 4
over a token alphabet as a whole document, as a grid body and as a scalar, (c) a catalogue of
scalars that are lexically fine but semantically broken (they reach parse actions), (d) the
environment answers of the debug output inside the error path (stdout = sink / strict ASCII /
write raises) — a deviation from the default environment answer.
"""
import itertools
import re
import signal
import sys
import time

from mc.explore import Stats, pmap, chunks, seeded_rng, HarnessError
from ref import neutral as N, observe as O, refzinc

SEEDS = [
    'ver:"2.0"\na\n1\n',
    'ver:"2.0" m:"x" k\na dis:"A",b\n"s",N\n,T\n',
    'ver:"3.0"\na,b\n[1,"x"],{k:M v:2kg}\n',
    'ver:"3.0"\na\n<<ver:"3.0"\nx\n1\n>>\n',
    'ver:"2.0"\na,b,c\n@r "d",`u\\:v`,Bin(t/p)\n',
    'ver:"2.0"\nd,t,ts\n2020-02-29,12:34:56.5,2020-01-01T00:00:00Z UTC\n',
    'ver:"2.0"\nc,n\nC(1.5,-2),-1.5e3kW\n',
    'ver:"3.0"\nx,na\nhex("ff"),NA\n',
    u'ver:"2.0"\na\n"é\\n\\u00e9\\$"\n',
    'ver:"2.0"\na\n1\n\nver:"2.0"\nb\n2\n',
    'ver:"3.0" l:[1]\na m:{k:1}\nR\n',
    'ver:"2.0"\na\nINF\nNaN\n-INF\nM\nF\n',
    'ver:"3.0"\na\n<<ver:"3.0" m:[1]\nx c:{k:M}\n[1]\n>>\n',
]
ALPHA_FULL = list('"\\`\',:;()[]{}<>@\n\r 0aA_-.TNe$%#&*') + ['\x00', u'é']
ALPHA_QUICK = list('"\\`,:()[]{}<>\n 0aN%') + [u'é']
TOKENS = ['N', '"', ',', '\n', '[', ']', '{', '}', '1', 'a', ':', ' ']
BROKEN_SCALARS = ['%', '%s', '%(x)s', '%d kg', '{0}', '{x}', '100%%', '2020-13-01', '2020-02-30', '25:00:00', '12:60:00', '12:00:61', '"\\u00"', '"\\x41"', '"\\', '"abc', 'hex("zz")', 'hex("f")',
                  'b64("A")', 'b64("====")', '2020-01-01T00:00:00+99:99', '2020-01-01T25:00:00Z', '2020-01-01T00:00:00Z Nowhere', '2020-13-01T00:00:00Z UTC',
                  '1e999', '-1e999kg', 'C(-,1)', 'C(,)', 'C(1,)', 'C(1)', 'C(91,181)', '@', '@a "x', '`abc', '`\\q`', 'Bin(', 'Bin(a', 'Foo(1)', 'Foo("x"', '[1', '[1,,2]',
                  '{a:}', '{A:1}', '{a:1', '<<ver:"3.0"\na\n1\n', '<<>>', '1__', '_1', '--1', '1.', '.5', '1.e3', '1e', '1e+', 'NaNx', 'INFINITY', 'TT', 'NN', 'n',
                  '\x00', u'\ufffe', '', ' ', '\n', '1 2', '"a" "b"', '2020-01-01T00:00:00', '2020-01-01T00:00', '0000-00-00', '9999-99-99', '99:99:99',
                  # repeated names: column, grid tag, column tag, dict tag (accepted or refused, but only with a ValueError)
                  '<<ver:"3.0"\nsite,dis,site\n"a","b","c"\n>>', '[<<ver:"3.0"\na,a\n1,2\n>>]', '{a:1 a:2}', '{a a}', '<<ver:"3.0" m:1 m:2\na\n1\n>>',
                  '<<ver:"3.0"\na x:1 x:2\n1\n>>', '{k:<<ver:"3.0"\nb,b\n1,2\n>>}', '<<ver:"3.0"\na\n1,2\n>>', '<<ver:"3.0"\na,b\n1\n>>',
                  # date-times without an offset, with a zone name, at wall-clock times that do not exist / exist twice there
                  '2021-03-28T01:30:00 London', '2021-10-31T01:30:00 London', '2021-03-14T02:30:00 New_York', '2021-11-07T01:30:00 New_York',
                  '2021-06-01T12:00:00 London', '2021-06-01T12:00:00 Nowhere', '2021-04-04T02:30:00 Lord_Howe', '2021-03-28T01:30:00.5 London',
                  '9999-12-31T23:59:59Z Brisbane', '0001-01-01T00:00:00Z New_York', '0001-01-01T00:00:00+14:00', '9999-12-31T23:59:59-12:00 UTC',
                  '0001-01-01T00:00:00Z UTC', '9999-12-31T23:59:59.999999Z Chatham', '12:34:56.', '12:34:56.1234567890123', '1' * 400, '"' + 'a' * 5000 + '"', '[' * 3 + ']' * 3, '{a:{b:{c:1}}}']


class Timeout(Exception):
    pass


def _alarm(signum, frame):
    raise Timeout()


def split_grids(text):
    """Document framing as the format defines it: grids are separated by blank lines (LF or CRLF)."""
    t = re.sub(r'(?:\r?\n)*\Z', '\n', text, count=1)
    return [p for p in re.split(r'(?<=\n)(?:\r?\n)+', t) if p.strip('\r\n') != '']


HDR = re.compile(r'ver:"((?:[^"\\\x00-\x1f]|\\[bfnrt"\\$]|\\[uU][0-9a-fA-F]{4})*)"')


def definitely_broken(piece):
    """Sound, incomplete structural scanner: a reason string when the text cannot be a ZINC grid
    under any reading, else None.  Shares nothing with hszinc."""
    mo = HDR.match(piece)
    if not mo:
        return 'missing or malformed version header'
    ver = mo.group(1)
    if not re.match(r'\d', ver):
        return 'version is not a version number'
    m2 = re.match(r'(\d[\d.]*)', ver)
    try:
        v3 = tuple(int(x or 0) for x in m2.group(1).split('.')) >= (3,)
    except ValueError:
        return None
    i, n = mo.end(), len(piece)
    stack = []
    vstack = [v3]            # a nested grid carries its own version header: its content is gated by THAT version
    while i < n:
        v3 = vstack[-1]
        c = piece[i]
        if c in '"`':
            q = c
            i += 1
            while True:
                if i >= n:
                    return 'unterminated string or uri'
                d = piece[i]
                if d == q:
                    i += 1
                    break
                if d == '\\':
                    e = piece[i + 1:i + 2]
                    legal = 'bfnrt"\\$' if q == '"' else 'bfnrt:/?#[]@&=;`\\'
                    if e and e in legal:
                        i += 2
                    elif e in ('u', 'U') and re.match(r'[0-9a-fA-F]{4}', piece[i + 2:i + 6]):
                        i += 6
                    else:
                        return 'illegal escape in string or uri'
                elif ord(d) < 0x20:
                    return 'raw control character (or line end) inside string or uri'
                else:
                    i += 1
            continue
        if piece.startswith('Bin(', i) and (not v3 or not piece.startswith('Bin("', i)):
            j = piece.find(')', i)
            nl = piece.find('\n', i)
            if j < 0 or (0 <= nl < j):
                return 'unterminated Bin('
            i = j + 1
            continue
        if c in '[{':
            if not v3:
                return '3.0-only bracket under a pre-3.0 version'
            stack.append(c)
        elif c in ']}':
            if not stack or stack[-1] != {']': '[', '}': '{'}[c]:
                return 'unbalanced bracket'
            stack.pop()
        elif piece.startswith('<<', i):
            if not v3:
                return 'nested grid under a pre-3.0 version'
            stack.append('<<')
            i += 2
            nv = NESTED_HDR.match(piece, i)
            inner = True
            if nv:
                try:
                    inner = tuple(int(x or 0) for x in nv.group(1).split('.')) >= (3,)
                except ValueError:
                    inner = True
            vstack.append(inner)
            continue
        elif piece.startswith('>>', i):
            if not stack or stack[-1] != '<<':
                return 'unbalanced >>'
            stack.pop()
            vstack.pop()
            i += 2
            continue
        i += 1
    if stack:
        return 'unclosed bracket'
    lines = piece.split('\n')
    if len(lines) < 2 or lines[1].strip('\r ') == '':
        return 'no column line'
    first = lines[1].lstrip(' ')
    if not re.match(r'[a-z]', first):
        return 'illegal first column name'
    bad = bad_column_name(lines[1].rstrip('\r'))
    if bad:
        return bad
    return None


NESTED_HDR = re.compile(r'ver:"(\d[\d.]*)"')
COLNAME = re.compile(r'[a-z][a-zA-Z0-9_]*(?= |$)')


def bad_column_name(line):
    """The column line is `name [meta]` segments separated by top-level commas; every segment must start
    with a lexically valid tag name.  Gives up (None) on anything it cannot split with certainty."""
    segs, depth, cur, i, n = [], 0, '', 0, len(line)
    while i < n:
        c = line[i]
        if c in '"`':
            j = i + 1
            while j < n and line[j] != c:
                j += 2 if line[j] == '\\' else 1
            if j >= n:
                return None
            cur += line[i:j + 1]
            i = j + 1
            continue
        if c in '([{':
            depth += 1
        elif c in ')]}':
            depth -= 1
            if depth < 0:
                return None
        if c == ',' and depth == 0:
            segs.append(cur)
            cur = ''
        else:
            cur += c
        i += 1
    if depth != 0:
        return None
    segs.append(cur)
    for seg in segs:
        if not COLNAME.match(seg.strip(' ')):
            return 'illegal column name'
    return None


def check_position(exc, st, sig, case, text):
    gs = getattr(exc, 'grid_str', None)
    line, col = getattr(exc, 'line', None), getattr(exc, 'col', None)
    if not isinstance(gs, str) or not isinstance(line, int) or not isinstance(col, int):
        st.fail('exception-without-position', sig, case, {'document': text[:300]})
        return
    lines = gs.split('\n')
    if not (0 <= line <= len(lines) + 1) or not (0 <= col <= max(len(x) for x in lines) + 1):
        st.fail('exception-position-outside-text', dict(sig, line=line, col=col), case, {'document': text[:300], 'lines': len(lines)})


_ZONES = None


def drop_unknown_zones(n):
    """hszinc deliberately keeps the numeric offset and drops a zone name it does not know (lenient, not a mis-parse).  A name is
    pinned only when it is an official Haystack zone name (the published list, read as data) that ends an Olson zone of this host;
    any other name (an invented one, an Olson alias such as Katmandu that Haystack does not list) is forgotten on BOTH sides."""
    global _ZONES
    if _ZONES is None:
        import pytz
        _ZONES = set(z.rsplit('/', 1)[-1] for z in pytz.all_timezones)
        try:
            from hszinc import zoneinfo as _zi
            _ZONES &= set(_zi.HAYSTACK_TIMEZONES)
        except Exception:  # noqa
            pass
    k = n[0]
    if k == 'dt':
        edge = not (-62100000000000000 < n[1] < 253370000000000000)   # within a year of 0001-01-01 / 9999-12-31: conversion may overflow
        return n if (n[3] in _ZONES and not edge) else (n[0], n[1], n[2], None)
    if k == 'list':
        return ('list', tuple(drop_unknown_zones(x) for x in n[1]))
    if k == 'dict':
        return ('dict', tuple((kk, drop_unknown_zones(x)) for kk, x in n[1]))
    if k == 'grid':
        return ('grid', n[1], tuple((kk, drop_unknown_zones(x)) for kk, x in n[2]),
                tuple((c, tuple((kk, drop_unknown_zones(x)) for kk, x in m)) for c, m in n[3]),
                tuple(tuple(drop_unknown_zones(x) for x in r) for r in n[4]))
    return n


def judge_document(hs, text, st, origin, case):
    """Feed one text to the grid parser and judge the outcome."""
    from hszinc.zincparser import ZincParseException
    sig = {'origin': origin}
    t0 = time.time()
    signal.alarm(30)
    try:
        try:
            got = hs.parse(text, mode=hs.MODE_ZINC, single=False)
            outcome = 'grids'
        except ZincParseException as e:
            got, outcome = e, 'zpe'
        except Timeout:
            st.fail('parse-does-not-terminate-in-30s', sig, case, {'document': text[:300]})
            return 'timeout'
        except BaseException as e:  # noqa
            got, outcome = e, 'other'
    finally:
        signal.alarm(0)
    dt = time.time() - t0
    st.count('executions')
    if dt > 5.0:
        st.fail('parse-too-slow', dict(sig, seconds=int(dt)), case, {'document': text[:300], 'seconds': dt})
    if outcome == 'other':
        st.fail('exception-other-than-ZincParseException', dict(sig, exc=type(got).__name__), case, {'document': text[:300], 'exc': repr(got)[:300]})
        return 'other:' + type(got).__name__
    # a document is one unit: the single flag only selects what is RETURNED, it must not change whether the text is accepted
    if len(split_grids(text)) > 1:
        signal.alarm(30)
        try:
            try:
                hs.parse(text, mode=hs.MODE_ZINC, single=True)
                single_outcome = 'grids'
            except ZincParseException:
                single_outcome = 'zpe'
            except Timeout:
                single_outcome = 'timeout'
            except BaseException as e:  # noqa
                single_outcome = 'other:' + type(e).__name__
        finally:
            signal.alarm(0)
        st.count('executions')
        if single_outcome != outcome and outcome in ('grids', 'zpe'):
            st.fail('single-flag-changes-the-verdict', dict(sig, single_false=outcome, single_true=single_outcome), case, {'document': text[:300]})
    if outcome == 'zpe':
        if not isinstance(got, ValueError):
            st.fail('ZincParseException-is-not-a-ValueError', sig, case, {})
        check_position(got, st, sig, case, text)
        return 'rejected'
    # hszinc returned grids: is that a mis-parse?
    pieces = split_grids(text)
    reasons = [r for r in (definitely_broken(p) for p in pieces) if r]
    if reasons:
        st.fail('structurally-broken-document-accepted', dict(sig, why=reasons[0]), case, {'document': text[:400], 'why': reasons})
        return 'misparse'
    if '\\#' in text:
        # the one URI escape whose decoding is not pinned (hszinc keeps its backslash on purpose, as the Java reference does for all)
        st.count('lenient_accepts')
        return 'lenient-accept'
    try:
        ref = [drop_unknown_zones(g) for g in refzinc.read(text)]
    except refzinc.RefZincError:
        st.count('lenient_accepts')
        return 'lenient-accept'
    except Exception:  # noqa
        st.count('lenient_accepts')
        return 'lenient-accept'
    try:
        obs = [drop_unknown_zones(O.observe_grid(g, hs)) for g in got]
    except Exception as e:  # noqa
        st.fail('parse-result-unobservable', sig, case, {'document': text[:300], 'exc': repr(e)[:200]})
        return 'unobservable'
    if len(obs) != len(ref):
        st.fail('accepted-document-decoded-differently', dict(sig, what='grid-count'), case, {'document': text[:400]})
        return 'differs'
    for a, b in zip(ref, obs):
        d = N.same(a, b, 'exact')
        if d:
            from props.rt import diff_class
            where, kinds = diff_class(d)
            st.fail('accepted-document-decoded-differently', dict(sig, where=where, kinds=kinds), case,
                    {'document': text[:400], 'first_difference': N.show(d, 300)})
            return 'differs'
    return 'accepted'


def mutants(doc, alpha, splice):
    n = len(doc)
    for i in range(n):
        yield ('del', i, ''), doc[:i] + doc[i + 1:]
        yield ('trunc', i, ''), doc[:i]
        for c in alpha:
            if c != doc[i]:
                yield ('rep', i, c), doc[:i] + c + doc[i + 1:]
    for i in range(n + 1):
        for c in alpha:
            yield ('ins', i, c), doc[:i] + c + doc[i:]
    if splice:
        spans = [(m.start(), m.end()) for m in re.finditer(r'"[^"\n]*"|\[[^\]\n]*\]|\{[^}\n]*\}|`[^`\n]*`|\([^)\n]*\)|<<.*?>>', doc, re.S)]
        for (a, b), (c, d) in itertools.permutations(spans, 2):
            yield ('splice', a, '%d' % c), doc[:a] + doc[c:d] + doc[b:]


def mutant_task(items, alpha_name, splice):
    import hszinc as hs
    signal.signal(signal.SIGALRM, _alarm)
    alpha = ALPHA_QUICK if alpha_name == 'quick' else ALPHA_FULL
    st = Stats()
    for si, lo, hi in items:
        doc = SEEDS[si]
        for (kind, pos, c), text in mutants(doc, alpha, splice):
            if not (lo <= pos < hi):
                continue
            case = {'kind': 'mutant', 'seed': si, 'op': kind, 'pos': pos, 'c': c, 'text': text}
            out = judge_document(hs, text, st, 'mutation:' + kind, case)
            st.case((si, kind, pos, c), outcome=(out,),
                    sample={'seed_document': si, 'mutation': [kind, pos, c], 'outcome': out} if pos == lo and kind == 'del' else None)
    return st


# well-formed scalars of every kind (both versions where legal): their one-step mutation closure goes through the scalar API
SCALAR_SEEDS = ['C(1.5,-2)', 'C(12,34.5)', '@a-b:c "d e"', '"a\\nb$c"', '`http://x/y?z=1`', '-1.5e3kW', '12_000.5', '2020-02-29', '12:34:56.789',
                '2020-02-29T12:34:56.5+05:45 Kathmandu', '2020-02-29T12:34:56Z UTC', '2020-02-29T12:34:56-03:30', 'Bin(text/plain)', 'Foo("x")', 'hex("dead")',
                '[1, "a", C(1,2)]', '{a b:1 c:"x"}', '<<\nver:"3.0"\na\n1\n>>', '[{a:[1]}, @r "d"]', 'NA', 'INF', '-INF', 'NaN', 'T']
SCALAR_ALPHA = list('"\\`,:()[]{}<>@ 0a.-TZ+%') + ['\n']


def scalar_mutant_task(items):
    import hszinc as hs
    signal.signal(signal.SIGALRM, _alarm)
    st = Stats()
    for si in items:
        seed = SCALAR_SEEDS[si]
        for ver in ('3.0', '2.0'):
            judge_scalar(hs, seed, ver, st, 'scalar-seed')
        seen = set()
        for (kind, pos, c), text in mutants(seed, SCALAR_ALPHA, False):
            if text in seen:
                continue
            seen.add(text)
            for ver in ('3.0', '2.0'):
                judge_scalar(hs, text, ver, st, 'scalar-mutation:' + kind)
    return st


def token_task(strings):
    import hszinc as hs
    from hszinc.zincparser import ZincParseException
    signal.signal(signal.SIGALRM, _alarm)
    st = Stats()
    for s in strings:
        for framing, text in (('whole', s), ('body', 'ver:"3.0"\na,b\n' + s + '\n'), ('body2', 'ver:"2.0"\na\n' + s + '\n')):
            case = {'kind': 'tokens', 'framing': framing, 'text': text}
            out = judge_document(hs, text, st, 'tokens:' + framing, case)
            st.case(('tok', framing, s), outcome=(out,))
        for ver in ('3.0', '2.0'):
            judge_scalar(hs, s, ver, st, 'tokens')
    return st


def judge_scalar(hs, s, ver, st, origin):
    case = {'kind': 'scalar', 'text': s, 'ver': ver}
    signal.alarm(30)
    try:
        try:
            v = hs.parse_scalar(s, mode=hs.MODE_ZINC, version=ver)
            out = 'value'
        except ValueError as e:
            out = 'ValueError'
        except Timeout:
            st.fail('parse-does-not-terminate-in-30s', {'origin': origin, 'api': 'scalar'}, case, {})
            out = 'timeout'
        except BaseException as e:  # noqa
            out = 'other:' + type(e).__name__
            st.fail('scalar-parse-raised-non-ValueError', {'origin': origin, 'exc': type(e).__name__}, case, {'exc': repr(e)[:300]})
    finally:
        signal.alarm(0)
    st.count('executions')
    st.case(('scalar', ver, s), outcome=(out,))
    if out == 'value' and '\\#' not in s:
        try:
            ref = drop_unknown_zones(refzinc.read_scalar(s, ver))
        except Exception:  # noqa
            # accepted by hszinc, refused by the strict reader: a mis-parse only if the text is structurally broken under ANY reading
            if '\n' not in s and s.strip(' ') == s:
                why = definitely_broken('ver:"%s"\na\n%s\n' % (ver, s))
                if why and why not in ('illegal first column name',):
                    st.fail('structurally-broken-scalar-accepted', {'origin': origin, 'why': why}, case, {'scalar': s[:200], 'value': repr(v)[:200]})
                    return
            st.count('lenient_accepts')
            return
        try:
            obs = drop_unknown_zones(O.observe(v, hs))
        except Exception:  # noqa
            return
        d = N.same(ref, obs, 'exact')
        if d:
            st.fail('accepted-scalar-decoded-differently', {'origin': origin, 'kinds': '%s->%s' % (ref[0], obs[0])}, case, {'first_difference': N.show(d, 300)})


class AsciiOut(object):
    def write(self, s):
        s.encode('ascii')
        return len(s)

    def flush(self):
        pass


class BrokenOut(object):
    def write(self, s):
        raise BrokenPipeError(32, 'Broken pipe')

    def flush(self):
        raise BrokenPipeError(32, 'Broken pipe')


def env_and_semantic(st):
    """(c) semantically broken scalars, alone and inside grids; (d) stdout faults on the error path."""
    import hszinc as hs
    signal.signal(signal.SIGALRM, _alarm)
    for s in BROKEN_SCALARS:
        for ver in ('2.0', '3.0'):
            judge_scalar(hs, s, ver, st, 'semantic')
            text = 'ver:"%s" m:%s\na\n1\n' % (ver, s)
            judge_document(hs, text, st, 'semantic:meta', {'kind': 'doc', 'text': text})
            text = 'ver:"%s"\na,b\n1,%s\n' % (ver, s)
            judge_document(hs, text, st, 'semantic:cell', {'kind': 'doc', 'text': text})
            st.case(('semantic', ver, s), outcome=('semantic',))
    # every escape form of the two quoted literals reaches the unescaping parse action: alone, as list element, as dict value
    for e in ['\\b', '\\f', '\\n', '\\r', '\\t', '\\"', '\\\\', '\\$', '\\u00e9', '\\u00E9', '\\u0000', '\\uffff', '\\ud800']:
        for ver in ('2.0', '3.0'):
            judge_scalar(hs, '"x%sy"' % e, ver, st, 'escape:str')
        judge_scalar(hs, '["x%sy"]' % e, '3.0', st, 'escape:str-in-list')
        judge_scalar(hs, '{k:"%s"}' % e, '3.0', st, 'escape:str-in-dict')
    for c in ':/?[]@&=;`\\' + 'bfnrt"$,!*+ ':      # not '#': hszinc keeps that escape's backslash on purpose (not pinned)
        e = '\\' + c
        for ver in ('2.0', '3.0'):
            judge_scalar(hs, '`x%sy`' % e, ver, st, 'escape:uri')
        judge_scalar(hs, '[`%s`]' % e, '3.0', st, 'escape:uri-in-list')
        judge_scalar(hs, '{k:`x%s`}' % e, '3.0', st, 'escape:uri-in-dict')
        text = 'ver:"2.0" u:`%s`\na\n`a%sb`\n' % (e, e)
        judge_document(hs, text, st, 'escape:uri', {'kind': 'doc', 'text': text})
    # long runs of one token in an unterminated or unbalanced place: parsing terminates (quadratic or exponential matching shows here)
    runs = ['\\\\', '\\"', '\\', '"', '`', '(', '[', '{', '<<', 'a', ' ', ',', ':', '\\u00', '$', 'N,']
    for t in runs:
        for n in (40, 400):
            texts = ['ver:"' + t * n, 'ver:"2.0" m:"' + t * n + '\na\n1\n', 'ver:"3.0"\na\n"' + t * n, 'ver:"2.0"\na\n`' + t * n]
            if t not in ('[', '{', '<<', '('):
                texts.append('ver:"3.0"\na\n' + t * n + '\n')
            for text in texts:
                case = {'kind': 'doc', 'text': text}
                out = judge_document(hs, text, st, 'token-run', case)
                st.case(('token-run', t, n, text[:12]), outcome=('token-run', out))
            judge_scalar(hs, '"' + t * n, '3.0', st, 'token-run')
            if t not in ('[', '{', '<<', '('):           # hundreds of OPEN brackets are nesting beyond the stated depth (RecursionError there)
                judge_scalar(hs, t * n, '3.0', st, 'token-run')
    # 3.0-only constructs inside a nested grid whose OWN header declares a pre-3.0 version (the enclosing document is 3.0)
    for nver in ('2.0', '1.0', '2.0.0'):
        for kind, lit in (('list', '[1]'), ('dict', '{k:1}'), ('na', 'NA'), ('xstr', 'hex("ff")'), ('grid', '<<ver:"3.0"\nq\n1\n>>')):
            for pos, text in (('cell', 'ver:"3.0"\na\n<<ver:"%s"\nx\n%s\n>>\n' % (nver, lit)),
                              ('grid-meta', 'ver:"3.0"\na\n<<ver:"%s" m:%s\nx\n1\n>>\n' % (nver, lit)),
                              ('col-meta', 'ver:"3.0"\na\n<<ver:"%s"\nx c:%s\n1\n>>\n' % (nver, lit)),
                              ('second-row', 'ver:"3.0"\na,b\n1,2\n<<ver:"%s"\nx,y\n1,2\n3,%s\n>>,N\n' % (nver, lit))):
                case = {'kind': 'doc', 'text': text, 'expect': 'rejected'}
                out = judge_document(hs, text, st, 'nested-version:' + pos, case)
                st.case(('nested-version', nver, kind, pos), outcome=('nested-version', out))
                if out in ('accepted', 'lenient-accept'):
                    st.fail('3.0-only-construct-accepted-under-pre-3.0-nested-version', {'origin': 'nested-version:' + pos, 'kind': kind, 'nested_ver': nver},
                            case, {'document': text})
    docs = ['ver:"2.0"\na\n"unterminated\n', u'ver:"2.0"\na\n"é",\x01\n', 'nonsense', u'ver:"2.0" m:"é"\na\n@@\n', 'ver:"3.0"\na\n[1,\n', u'vér:"2.0"\na\n1\n',
            'ver:"2.0"\na\n2020-13-01\n', u'ver:"2.0"\na\n"é" "é"\n']
    scal = [u'"é', u'é', '2020-13-01', '[1,', u'@é é']
    saved = sys.stdout
    for name, stream in (('sink', saved), ('strict-ascii', AsciiOut()), ('write-raises', BrokenOut())):
        for text in docs:
            sys.stdout = stream
            try:
                out = judge_document(hs, text, st, 'stdout:' + name, {'kind': 'env', 'stdout': name, 'text': text})
            finally:
                sys.stdout = saved
            st.case(('env', name, text), outcome=(out, name))
        for s in scal:
            sys.stdout = stream
            try:
                judge_scalar(hs, s, '3.0', st, 'stdout:' + name)
            finally:
                sys.stdout = saved


def version_table_stress(st):
    """History dependence of the version-keyed grammar tables: after many distinct (unofficial) version strings have been
    seen, well-formed and malformed texts must still be judged exactly as before."""
    import hszinc as hs
    signal.signal(signal.SIGALRM, _alarm)
    probes = ['ver:"2.0"\na\n1\n', 'ver:"3.0"\na\n[1,NA]\n', 'ver:"2.0"\na\n[1]\n', 'ver:"3.0"\na\n"x\n']
    def judge_all(tag):
        out = []
        for text in probes:
            out.append(judge_document(hs, text, st, 'version-table:' + tag, {'kind': 'doc', 'text': text}))
        for s, ver in (('1', '2.0'), ('NA', '3.0'), ('"x', '3.0'), ('[1]', '2.0')):
            judge_scalar(hs, s, ver, st, 'version-table:' + tag)
        return out
    before = judge_all('before')
    for i in range(1, 70):
        for v in ('3.0.%d' % i, '2.0.%d' % i, '%d.7' % (i + 3)):
            text = 'ver:"%s"\na\n1\n' % v
            judge_document(hs, text, st, 'version-table:fill', {'kind': 'doc', 'text': text})
            judge_scalar(hs, '1', v, st, 'version-table:fill')
    after = judge_all('after')
    st.case(('version-table',), outcome=('version-table', tuple(before) == tuple(after)))
    if before != after or before != ['accepted', 'accepted', 'rejected', 'rejected']:
        st.fail('verdict-depends-on-versions-seen-earlier', {'origin': 'version-table'}, {'kind': 'version-table'}, {'before': before, 'after': after})


def run(ctx):
    st = Stats()
    alpha_name = 'quick' if ctx.quick else 'full'
    items = []
    for si, doc in enumerate(SEEDS):
        step = 6 if ctx.quick else 3
        for lo in range(0, len(doc) + 1, step):
            items.append((si, lo, lo + step))
    seeded_rng(ctx.seed, 'c09').shuffle(items)
    for part in pmap(mutant_task, [(c, alpha_name, not ctx.quick) for c in chunks(items, ctx.jobs * 6)], ctx.jobs):
        st.merge(part)
    toks = []
    for n in range(0, (3 if ctx.quick else 4) + 1):
        for t in itertools.product(TOKENS, repeat=n):
            toks.append(''.join(t))
    seeded_rng(ctx.seed, 'c09t').shuffle(toks)
    for part in pmap(token_task, [(c,) for c in chunks(toks, ctx.jobs * 4)], ctx.jobs):
        st.merge(part)
    sitems = list(range(len(SCALAR_SEEDS)))
    seeded_rng(ctx.seed, 'c09s').shuffle(sitems)
    for part in pmap(scalar_mutant_task, [(c,) for c in chunks(sitems, len(sitems))], ctx.jobs):
        st.merge(part)
    env_and_semantic(st)
    version_table_stress(st)
    ex = st.c.get('executions', 0)
    st.c['states'] = ex + 1
    st.c['transitions'] = ex
    return {
        'stats': st, 'exhaustive': True,
        'rule': 'complete one-step mutation closure of %d seed documents over a %d-symbol alphabet (delete, truncate, replace, insert at every '
                'offset%s), every string of length <= %d over a 12-token alphabet as whole document, as 3.0 and 2.0 grid body and as scalar under '
                'both versions, the same one-step mutation closure of %d well-formed scalars of every kind (%d-symbol alphabet) through the scalar API under both versions, %d semantically broken or odd scalars alone / in metadata / in a cell, every escape form of both quoted literals through the scalar API, '
                'runs of 40 and 400 copies of 16 tokens in unterminated / unbalanced places (termination), 3.0-only constructs in nested grids that declare a pre-3.0 '
                'version (3 versions x 5 kinds x 4 positions), a version-table stress, and 3 stdout environments on the error path; '
                'distinct = distinct text; a case is non-trivial when it differs from its seed' % (
                    len(SEEDS), len(ALPHA_QUICK if ctx.quick else ALPHA_FULL), '' if ctx.quick else ', every splice of two bracketed spans',
                    3 if ctx.quick else 4, len(SCALAR_SEEDS), len(SCALAR_ALPHA), len(BROKEN_SCALARS)),
        'coverage': {'bounds': {'seed_documents': len(SEEDS), 'alphabet': alpha_name, 'scalar_seeds': len(SCALAR_SEEDS), 'scalar_alphabet': len(SCALAR_ALPHA), 'token_strings': len(toks),
                                'lenient_accepts': st.c.get('lenient_accepts', 0)}},
        'assumptions': ['"definitely broken" is decided by a sound but incomplete structural scanner (header, quote/backtick balance with legal '
                        'escapes only, bracket balance outside strings, 3.0 brackets under a pre-3.0 version, first column name); texts hszinc '
                        'accepts that the strict reference reader rejects but the scanner does not condemn are counted (lenient_accepts), not alarmed',
                        'when hszinc and the strict reference reader both accept a text, the grids must agree'],
    }


def replay(case, st):
    import hszinc as hs
    signal.signal(signal.SIGALRM, _alarm)
    if case['kind'] == 'scalar':
        judge_scalar(hs, case['text'], case['ver'], st, 'replay')
    elif case['kind'] == 'version-table':
        version_table_stress(st)
    elif case['kind'] == 'env':
        saved = sys.stdout
        sys.stdout = {'sink': saved, 'strict-ascii': AsciiOut(), 'write-raises': BrokenOut()}[case['stdout']]
        try:
            judge_document(hs, case['text'], st, 'stdout:' + case['stdout'], case)
        finally:
            sys.stdout = saved
    else:
        out = judge_document(hs, case['text'], st, 'replay', case)
        if case.get('expect') == 'rejected' and out in ('accepted', 'lenient-accept'):
            st.fail('3.0-only-construct-accepted-under-pre-3.0-nested-version', {'origin': 'replay'}, case, {'document': case['text']})
