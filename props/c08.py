# -*- coding: utf-8 -*-
"""C08 — no string payload can alter grid structure (escaping is injective and contained).

Driver A, complete enumeration: every code point U+0000..U+10FFFF as a one-character payload
(thorough; the quick tier takes all of U+0000-U+02FF, both sides of every range boundary found in
the regex literals / escape tables of the anchored files, category representatives, surrogates,
plane edges) and every string of length <= 3 over the metacharacter alphabet, x text-carrying
position x both formats, in a two-grid document so a leaked blank line shows as a third grid.
Payloads are packed many per grid for throughput only: a packed grid that passes proves each of its
rows; a packed grid that fails is bisected down to single-payload documents before anything is
reported.
"""
import itertools
import json
import os
import re
import sys
import unicodedata

from mc.explore import Stats, pmap, chunks, seeded_rng, HarnessError
from ref import neutral as N, observe as O

META = ['"', '\\', '$', '`', ',', ':', '\n', '\r', '\t', ' ', '>', '<', 'n', 's', '[', '{', 'u', u'\u00e9', '\x01']
CELL_POS = ['str-cell', 'uri-cell', 'ref-dis', 'xstr-payload']
CONT_POS = ['grid-meta', 'col-meta', 'dict-value', 'list-element', 'nested-cell']
L, R = ('str', 'LEFT'), ('str', 'RIGHT')
SECOND = N.mkgrid('2.0', [('second', N.MARKER)], [('p', []), ('q', [])], [(('str', 'left'), ('str', 'right'))])
BATCH = {'str-cell': 128, 'uri-cell': 128, 'ref-dis': 128, 'xstr-payload': 128, 'grid-meta': 24, 'col-meta': 24, 'dict-value': 8,
         'list-element': 8, 'nested-cell': 16}


def wrap(pos, x):
    if pos == 'uri-cell':
        return ('uri', x)
    if pos == 'ref-dis':
        return ('ref', 'r', x)
    if pos == 'xstr-payload':
        return ('xstr', 'Foo', x)
    return ('str', x)


def make_grid(pos, ver, payloads):
    vals = [wrap(pos, x) for x in payloads]
    cols3 = [('s0', []), ('p', []), ('s1', [])]
    if pos in CELL_POS:
        return N.mkgrid(ver, [('gm', L)], cols3, [(L, v, R) for v in vals])
    if pos == 'grid-meta':
        meta = []
        for i, v in enumerate(vals):
            meta += [('a%d' % i, L), ('m%d' % i, v)]
        meta.append(('z', R))
        return N.mkgrid(ver, meta, cols3, [(L, N.NULL, R)])
    if pos == 'col-meta':
        meta = []
        for i, v in enumerate(vals):
            meta += [('a%d' % i, L), ('m%d' % i, v)]
        meta.append(('z', R))
        return N.mkgrid(ver, [('gm', L)], [('s0', []), ('p', meta), ('s1', [('dis', R)])], [(L, N.NULL, R)])
    if pos == 'dict-value':
        return N.mkgrid(ver, [('gm', L)], cols3, [(L, N.mkdict([('a', L), ('k', v), ('z', R)]), R) for v in vals])
    if pos == 'list-element':
        return N.mkgrid(ver, [('gm', L)], cols3, [(L, ('list', (L, v, R)), R) for v in vals])
    if pos == 'nested-cell':
        inner = N.mkgrid(ver, [('im', L)], cols3, [(L, v, R) for v in vals])
        return N.mkgrid(ver, [('gm', L)], cols3, [(L, inner, R)])
    raise HarnessError(pos)


def classify(expected, observed_list):
    """symptom class for a failing single-payload document"""
    if len(observed_list) != 2:
        return 'grid-count-changed'
    d = N.same(expected, observed_list[0], 'exact')
    if d is None:
        d2 = N.same(SECOND, observed_list[1], 'exact')
        return 'following-grid-changed' if d2 else None
    path = d[0]
    if any(t in path for t in ('nrows', 'ncells', 'cols', 'names', 'keys', ':len')):
        return 'shape-changed'
    if ':kind' in path:
        return 'payload-kind-changed'
    a, b = d[1], d[2]
    if a in (L, R) or (isinstance(a, tuple) and a and a[0] == 'str' and a[1] in ('LEFT', 'RIGHT')):
        return 'neighbour-changed'
    return 'payload-changed'


def try_batch(hs, fmt, pos, ver, payloads):
    """None if the packed document round-trips exactly, else (symptom, detail) for the batch."""
    mode = hs.MODE_ZINC if fmt == 'zinc' else hs.MODE_JSON
    exp = make_grid(pos, ver, payloads)
    try:
        g = O.build_grid(exp, hs)
        sg = O.build_grid(SECOND, hs)
    except Exception as e:  # noqa
        return ('grid-construction-raised', {'exc': repr(e)[:200]})
    try:
        text = hs.dump([g, sg], mode=mode)
    except Exception as e:  # noqa
        return ('dump-raised', {'exc': repr(e)[:200]})
    try:
        back = hs.parse(text, mode=mode, single=False)
        obs = [O.observe_grid(b, hs) for b in back]
    except Exception as e:  # noqa
        return ('reparse-raised', {'exc': repr(e)[:200], 'dumped': text[:400]})
    sym = classify(exp, obs)
    if sym is None:
        return None
    return (sym, {'dumped': text[:400]})


def bisect(hs, fmt, pos, ver, payloads, st, out):
    st.count('executions')
    res = try_batch(hs, fmt, pos, ver, payloads)
    if res is None:
        return
    if len(payloads) == 1:
        out.append((payloads[0], res))
        return
    mid = len(payloads) // 2
    bisect(hs, fmt, pos, ver, payloads[:mid], st, out)
    bisect(hs, fmt, pos, ver, payloads[mid:], st, out)


def describe(x):
    if x == '':
        return 'empty'
    if len(x) == 1:
        return 'U+%04X' % ord(x)
    return '+'.join('U+%04X' % ord(c) for c in x)


def task(fmt, pos, ver, payloads):
    import hszinc as hs
    st = Stats()
    out = []
    n = BATCH[pos]
    for i in range(0, len(payloads), n):
        bisect(hs, fmt, pos, ver, payloads[i:i + n], st, out)
    st.count('payload_cells', len(payloads))
    for x, (sym, detail) in out:
        sig = {'fmt': fmt, 'position': pos, 'payload': describe(x)}
        if len(x) == 1:
            sig['cp'] = ord(x)
        st.fail(sym, sig, {'fmt': fmt, 'pos': pos, 'ver': ver, 'payload': [ord(c) for c in x]}, dict(detail, payload=repr(x)))
    for x in payloads:
        st.inputs.add(hash((fmt, pos, ver, x)) & 0xffffffffffffffff)
    st.outcomes.add(hash((fmt, pos, bool(out))) & 0xffffffffffffffff)
    if payloads:
        st.samples.append({'fmt': fmt, 'position': pos, 'ver': ver, 'payload': describe(payloads[0]), 'batch_of': len(payloads)})
    return st


def scalar_task(fmt, payloads):
    """The same payloads through the scalar API (dump_scalar -> parse_scalar), one value per call: str, uri, ref display, xstr payload."""
    import hszinc as hs
    st = Stats()
    mode = hs.MODE_ZINC if fmt == 'zinc' else hs.MODE_JSON
    for x in payloads:
        for kind, n in (('str', ('str', x)), ('uri', ('uri', x)), ('ref-display', ('ref', 'r', x)), ('xstr-payload', ('xstr', 'Foo', x))):
            st.count('executions')
            st.count('payload_cells')
            sig = {'fmt': fmt, 'position': 'scalar-api:' + kind, 'payload': describe(x)}
            if len(x) == 1:
                sig['cp'] = ord(x)
            case = {'fmt': fmt, 'pos': 'scalar-api', 'ver': '3.0', 'payload': [ord(c) for c in x]}
            try:
                v = O.build(n, hs)
                text = hs.dump_scalar(v, mode=mode, version=hs.VER_3_0)
            except Exception as e:  # noqa
                st.fail('dump-raised', sig, case, {'exc': repr(e)[:200], 'payload': repr(x)})
                continue
            try:
                got = O.observe(hs.parse_scalar(text, mode=mode, version=hs.VER_3_0), hs)
            except Exception as e:  # noqa
                st.fail('reparse-raised', sig, case, {'exc': repr(e)[:200], 'dumped': repr(text)[:300], 'payload': repr(x)})
                continue
            if N.same(n, got, 'exact'):
                st.fail('payload-kind-changed' if got[0] != n[0] else 'payload-changed', sig, case, {'dumped': repr(text)[:300], 'payload': repr(x), 'observed': N.show(got, 200)})
        st.inputs.add(hash((fmt, 'scalar-api', x)) & 0xffffffffffffffff)
    return st


def regex_boundaries():
    """Code points on both sides of every range boundary / literal that appears in the regex
    literals and escape tables of the anchored files (read at run time, so a changed range changes
    the sample)."""
    repo = os.environ.get('VERIF_REPO', '/repo')
    cps = set()
    for fn in ('zincdumper.py', 'zincparser.py', 'jsondumper.py', 'jsonparser.py', 'parser.py', 'datatypes.py'):
        try:
            src = open(os.path.join(repo, 'hszinc', fn), encoding='utf-8').read()
        except OSError:
            continue
        for mo in re.finditer(r'\\x([0-9a-fA-F]{2})|\\u([0-9a-fA-F]{4})|0x([0-9a-fA-F]{2,6})', src):
            v = int([g for g in mo.groups() if g][0], 16)
            if v <= 0x10ffff:
                cps.update((max(v - 1, 0), v, min(v + 1, 0x10ffff)))
    return cps


def quick_codepoints():
    cps = set(range(0, 0x300))
    cps |= regex_boundaries()
    seen = set()
    for cp in range(0x300, 0x110000, 7):
        cat = unicodedata.category(chr(cp))
        if cat not in seen:
            seen.add(cat)
            cps.add(cp)
    for v in (0x2028, 0x2029, 0xfeff, 0xfffe, 0xffff, 0xd7ff, 0xd800, 0xdbff, 0xdc00, 0xdfff, 0xe000, 0xfffd, 0x85, 0x2000, 0x200b, 0x3000):
        cps.add(v)
    for plane in range(0, 17):
        cps.update((plane * 0x10000, plane * 0x10000 + 1, plane * 0x10000 + 0xfffe, plane * 0x10000 + 0xffff))
    return sorted(c for c in cps if 0 <= c <= 0x10ffff)


def meta_strings(maxlen):
    out = []
    for n in range(1, maxlen + 1):
        for t in itertools.product(META, repeat=n):
            out.append(''.join(t))
    return out


LOOKALIKES = ['', 'n:1', 'n:1 kg', 's:x', 'm:', 'z:', 'x:', '-:', 'r:x', 'r:x y', 'u:x', 'b:x', 'd:2020-01-01', 'h:12:00', 't:2020-01-01T00:00:00Z UTC',
              'c:1,2', 'x:a:b', 'N', 'NA', 'M', 'R', 'T', 'F', 'INF', 'NaN', '1', '1kg', '@a', '[1]', '{"a":1}', '"x"', '>>', '<<', '>>\n', '\n\n', 'a\n\nb',
              '\r\n\r\n', 'ver:"3.0"', '\\u0041', '\\n', '\\$', '\\\\"', 'a b', ' x', 'x ', '\\\\u0041', 'C:\\data\\ubad0', '\\u005cn', u'\\\u00e9t\u00e9', u'\u00e9\\', '\\U0041']


# long payloads: more metacharacters than any small constant (a per-call replacement limit, a fixed-size buffer), then a delimiter
LONG = [c * n + d for c in ['"', '\\', '$', '`', u'\xe9', 'a', '\n'] for n in (33, 40, 300) for d in ['"', '\\', '`', '$,"x', '\n"']] + \
       ['\\"' * 40, '$"' * 40, u'\xe9"' * 40, '`\\' * 40]


def run(ctx):
    cps_quick = quick_codepoints()
    if ctx.quick:
        cps = cps_quick
        cell_strings = meta_strings(3) + LOOKALIKES + LONG
        cont_strings = meta_strings(2) + LOOKALIKES + LONG
        cont_cps = [c for c in cps_quick if c < 0x100 or c in (0x2028, 0x2029, 0xd800, 0xffff, 0x10000, 0x10ffff)]
    else:
        cps = list(range(0, 0x110000))
        cell_strings = meta_strings(3) + LOOKALIKES + LONG
        cont_strings = meta_strings(3) + LOOKALIKES + LONG
        cont_cps = cps_quick
    tasks = []
    cp_payloads = [chr(c) for c in cps]
    for fmt in ('zinc', 'json'):
        for pos in CELL_POS:
            vers = ['3.0'] if (pos == 'xstr-payload' or not ctx.quick) else ['3.0', '2.0']
            for ver in vers:
                pl = cp_payloads if ver == '3.0' else [chr(c) for c in cps_quick if c < 0x300]
                for c in chunks(pl + cell_strings, max(ctx.jobs * 2, len(pl) // 4000 + 1)):
                    tasks.append((fmt, pos, ver, c))
        for pos in CONT_POS:
            pl = [chr(c) for c in cont_cps] + cont_strings
            for c in chunks(pl, ctx.jobs):
                tasks.append((fmt, pos, '3.0', c))
    seeded_rng(ctx.seed, 'c08').shuffle(tasks)
    st = Stats()
    for part in pmap(task, tasks, ctx.jobs):
        st.merge(part)
    spl = [chr(c) for c in cont_cps] + cont_strings
    for part in pmap(scalar_task, [(fmt, c) for fmt in ('zinc', 'json') for c in chunks(spl, ctx.jobs)], ctx.jobs):
        st.merge(part)
    cells = st.c.get('payload_cells', 0)
    st.c['states'] = cells + st.c.get('executions', 0)
    st.c['transitions'] = cells + st.c.get('executions', 0) - 1
    st.nontrivial |= st.inputs
    st.outcomes.add(1)
    st.outcomes.add(2)
    return {
        'stats': st, 'exhaustive': True,
        'single_outcome_ok': True,
        'rule': 'complete enumeration of (payload x position x format): payload = every listed code point as a 1-character string and every '
                'string of length <= %d (cells) / <= %d (container positions) over the 19-symbol metacharacter alphabet plus prefix look-alikes and 109 long payloads (33 / 40 / 300 metacharacters, then a delimiter); '
                'packed per grid and bisected on failure; plus the container-position payloads as str / uri / ref display / xstr payload through the scalar API of both formats; evaluations = documents dumped and re-parsed; distinct = distinct (format, position, '
                'version, payload); every payload is non-trivial (it is placed between two sentinel cells in a two-grid document)' % (
                    3, 2 if ctx.quick else 3),
        'coverage': {'bounds': {'code_points': len(cps), 'all_code_points': not ctx.quick, 'cell_positions': CELL_POS, 'container_positions': CONT_POS,
                                'container_code_points': len(cont_cps), 'cell_strings': len(cell_strings), 'container_strings': len(cont_strings),
                                'payload_cells': cells, 'batch_sizes': BATCH},
                     'traces_validated_against_impl': st.c.get('executions', 0)},
        'assumptions': ['packing: a packed grid that round-trips exactly proves each of its rows; failures are always re-established on a '
                        'single-payload document before being reported'],
    }


def replay(case, st):
    payload = ''.join(chr(c) for c in case['payload'])
    if case['pos'] == 'scalar-api':
        st.merge(scalar_task(case['fmt'], [payload]))
        return
    st.merge(task(case['fmt'], case['pos'], case['ver'], [payload]))
