# -*- coding: utf-8 -*-
"""C17 — date-times keep instant, offset and zone through every zone and DST transition.

Driver A, complete enumeration: every zone hszinc maps on this host x every tabulated pytz
transition instant x offsets {-30 min, -1 s, 0, +1 s, +30 min} x microseconds x both formats
(thorough; quick = first 2 and last 6 transitions per zone); the name<->tz map itself; and
foreign tzinfo objects (fixed offsets for every whole minute -14h..+14h, pytz zones outside the
map, zoneinfo.ZoneInfo) at local times that are ordinary / ambiguous / skipped in some mapped zone.
pytz and datetime arithmetic are the oracle.
"""
import datetime

import pytz

from mc.explore import Stats, pmap, chunks, seeded_rng, HarnessError

UTC = datetime.timezone.utc
EPOCH = datetime.datetime(1970, 1, 1, tzinfo=UTC)
US = datetime.timedelta(microseconds=1)
DELTAS = [datetime.timedelta(minutes=-30), datetime.timedelta(seconds=-1), datetime.timedelta(0), datetime.timedelta(seconds=1),
          datetime.timedelta(minutes=30)]


def transitions(olson, quick):
    tz = pytz.timezone(olson)
    tt = [t for t in getattr(tz, '_utc_transition_times', []) if 1850 <= t.year <= 2100]
    if not tt:
        tt = [datetime.datetime(2020, 6, 1, 12, 0, 0)]
    if quick and len(tt) > 8:
        tt = tt[:2] + tt[-6:]
    return tt + [datetime.datetime(2021, 1, 15, 12, 0, 0), datetime.datetime(2021, 7, 15, 12, 0, 0)]


def roundtrip(hs, dt, fmt):
    mode = hs.MODE_ZINC if fmt == 'zinc' else hs.MODE_JSON
    text = hs.dump_scalar(dt, mode=mode)
    back = hs.parse_scalar(text, mode=mode)
    return text, back


def zone_task(zones, quick):
    import hszinc as hs
    st = Stats()
    for name, olson in zones:
        tz = pytz.timezone(olson)
        for t in transitions(olson, quick):
            for delta in DELTAS:
                for us in ((0, 999999) if quick else (0, 1, 999999)):
                    utc = (t + delta).replace(microsecond=us, tzinfo=UTC)
                    dt = utc.astimezone(tz)
                    for fmt in ('zinc', 'json'):
                        st.count('executions')
                        case = {'kind': 'zone', 'zone': name, 'olson': olson, 'utc': utc.isoformat(), 'fmt': fmt}
                        sig = {'fmt': fmt, 'zone': name, 'around_transition': delta.total_seconds() != 0 or True}
                        sig = {'fmt': fmt}
                        try:
                            text, back = roundtrip(hs, dt, fmt)
                        except Exception as e:  # noqa
                            st.fail('mapped-zone-datetime-roundtrip-raised', dict(sig, exc=type(e).__name__, zone=name), case, {'exc': repr(e)[:300]})
                            continue
                        if not isinstance(back, datetime.datetime) or back.tzinfo is None:
                            st.fail('datetime-read-back-as-other-kind', dict(sig, zone=name), case, {'text': text, 'back': repr(back)})
                            continue
                        problems = []
                        if (back - EPOCH) // US != (utc - EPOCH) // US:
                            problems.append('instant')
                        if back.utcoffset() != dt.utcoffset():
                            problems.append('offset')
                        if getattr(back.tzinfo, 'zone', None) != olson:
                            problems.append('zone')
                        st.case((name, utc.isoformat(), fmt), outcome=('zone', bool(problems), delta.total_seconds() == 0))
                        if problems:
                            st.fail('datetime-changed-through-roundtrip', dict(sig, what='+'.join(problems)), case,
                                    {'text': text, 'expected': dt.isoformat() + ' ' + olson, 'observed': back.isoformat() + ' ' + str(getattr(back.tzinfo, 'zone', None))})
        # values whose offset is STALE for their zone at that instant (plain datetime arithmetic across a transition, or a skipped
        # local time localised with the default is_dst): the instant and the zone name survive; the offset may be normalised
        for t in transitions(olson, quick):
            before = (t - datetime.timedelta(hours=1)).replace(tzinfo=UTC).astimezone(tz)
            stale = before + datetime.timedelta(minutes=90)
            if stale.utcoffset() == tz.normalize(stale).utcoffset():
                continue
            for fmt in ('zinc', 'json'):
                st.count('executions')
                case = {'kind': 'stale', 'zone': name, 'olson': olson, 'utc_before': (t - datetime.timedelta(hours=1)).isoformat(), 'fmt': fmt}
                try:
                    text, back = roundtrip(hs, stale, fmt)
                except Exception as e:  # noqa
                    st.fail('mapped-zone-datetime-roundtrip-raised', {'fmt': fmt, 'exc': type(e).__name__, 'zone': name, 'offset': 'stale'}, case, {'exc': repr(e)[:300]})
                    continue
                ok = isinstance(back, datetime.datetime) and back.tzinfo is not None and (back - EPOCH) // US == (stale - EPOCH) // US \
                    and getattr(back.tzinfo, 'zone', None) == olson
                st.case((name, 'stale', t.isoformat(), fmt), outcome=('stale', ok))
                if not ok:
                    st.fail('datetime-changed-through-roundtrip', {'fmt': fmt, 'what': 'zone-or-instant', 'offset': 'stale-for-the-zone'}, case,
                            {'text': text, 'value': stale.isoformat() + ' ' + olson, 'observed': repr(back)})
        st.samples.append({'zone': name, 'olson': olson, 'transitions': len(transitions(olson, quick))})
    st.samples = st.samples[:3]
    return st


def map_checks(st):
    import hszinc as hs
    from hszinc import zoneinfo as zi
    fwd = zi.get_tz_map()
    rev = zi.get_tz_rmap()
    if len(set(fwd.values())) != len(fwd):
        st.fail('zone-map-not-injective', {'direction': 'name->tz'}, {'kind': 'map'}, {})
    if len(rev) != len(fwd):
        st.fail('zone-map-not-injective', {'direction': 'tz->name'}, {'kind': 'map'}, {'forward': len(fwd), 'reverse': len(rev)})
    for name, olson in sorted(fwd.items()):
        st.count('executions')
        case = {'kind': 'map', 'zone': name}
        if rev.get(olson) != name:
            st.fail('zone-maps-not-mutually-inverse', {}, case, {'olson': olson, 'reverse': rev.get(olson)})
        if olson != name and olson.rsplit('/', 1)[-1] != name:
            st.fail('zone-name-is-not-the-city-of-its-tz', {}, case, {'olson': olson})
        try:
            tz = zi.timezone(name)
            ok = getattr(tz, 'zone', None) == olson
            back = zi.timezone_name(datetime.datetime(2021, 1, 15, 12, 0, tzinfo=UTC).astimezone(tz))
        except Exception as e:  # noqa
            st.fail('zone-lookup-raised', {'exc': type(e).__name__}, case, {'exc': repr(e)})
            continue
        if not ok or back != name:
            st.fail('zone-name-roundtrip-differs', {}, case, {'name': name, 'back': back})
        st.case(('map', name), outcome=('map',))
    for bad in ('Nowhere', '', 'london', 'Europe/London/X'):
        st.count('executions')
        try:
            zi.timezone(bad)
            st.fail('unknown-zone-name-accepted', {}, {'kind': 'map', 'zone': bad}, {})
        except ValueError:
            pass
        except Exception as e:  # noqa
            st.fail('zone-lookup-raised', {'exc': type(e).__name__}, {'kind': 'map', 'zone': bad}, {})
    return sorted(fwd.items())


def edge_local_times(zones):
    """Naive local times that are ordinary / ambiguous / skipped in SOME mapped zone (from the
    transition tables, so the writer's offset scan really meets them)."""
    out = set()
    for name, olson in zones:
        tz = pytz.timezone(olson)
        tt = [t for t in getattr(tz, '_utc_transition_times', []) if 2018 <= t.year <= 2022]
        infos = getattr(tz, '_transition_info', [])
        alltt = list(getattr(tz, '_utc_transition_times', []))
        for t in tt[:4]:
            i = alltt.index(t)
            if i == 0:
                continue
            before = infos[i - 1][0]
            after = infos[i][0]
            lo, hi = sorted([t + before, t + after])
            mid = lo + (hi - lo) / 2
            out.add(mid.replace(microsecond=0))
    out = sorted(out)
    # keep a spread: every k-th, plus two ordinary times
    k = max(1, len(out) // 40)
    return out[::k][:40] + [datetime.datetime(2021, 1, 15, 12, 0, 0), datetime.datetime(2021, 7, 15, 12, 0, 0)]


def foreign_task(offsets, locals_, zone_list):
    import hszinc as hs
    st = Stats()
    olson_of = dict(zone_list)
    for m in offsets:
        tzinfo = datetime.timezone(datetime.timedelta(minutes=m))
        for loc in locals_:
            dt = loc.replace(tzinfo=tzinfo)
            judge_foreign(hs, dt, 'fixed%+d' % m, st, olson_of, {'kind': 'fixed', 'offset_min': m, 'local': loc.isoformat()})
    st.samples = st.samples[:2]
    return st


def judge_foreign(hs, dt, label, st, olson_of, case):
    for fmt in ('zinc', 'json'):
        st.count('executions')
        mode = hs.MODE_ZINC if fmt == 'zinc' else hs.MODE_JSON
        sig = {'fmt': fmt, 'tzinfo': label.split(':')[0] if ':' in label else ('fixed-offset' if label.startswith('fixed') else label)}
        c = dict(case, fmt=fmt)
        try:
            text = hs.dump_scalar(dt, mode=mode)
        except ValueError:
            st.case((label, dt.isoformat(), fmt), outcome=('refused',))
            continue
        except Exception as e:  # noqa
            st.case((label, dt.isoformat(), fmt), outcome=('raised', type(e).__name__))
            st.fail('writer-raised-other-than-ValueError-for-foreign-tzinfo', dict(sig, exc=type(e).__name__), c, {'value': dt.isoformat(), 'exc': repr(e)[:300]})
            continue
        try:
            back = hs.parse_scalar(text, mode=mode)
        except Exception as e:  # noqa
            st.fail('foreign-tzinfo-dump-not-parseable', dict(sig, exc=type(e).__name__), c, {'text': text, 'exc': repr(e)[:300]})
            continue
        name = text.rsplit(' ', 1)[-1].strip('"')
        problems = []
        if not isinstance(back, datetime.datetime) or back.tzinfo is None:
            problems.append('kind')
        else:
            # instants are compared by subtraction: == between zones is always False for a fold-ambiguous wall time (PEP 495)
            if (back - EPOCH) // US != (dt - EPOCH) // US:
                problems.append('instant')
            olson = olson_of.get(name)
            if olson is None:
                if name != 'UTC':
                    problems.append('unmapped-zone-name')
            else:
                want = dt.astimezone(pytz.timezone(olson)).utcoffset()
                if want != dt.utcoffset():
                    problems.append('zone-offset-differs-at-that-instant')
            if back.utcoffset() != dt.utcoffset():
                problems.append('offset')
        st.case((label, dt.isoformat(), fmt), outcome=('named', bool(problems)),
                sample={'value': dt.isoformat(), 'tzinfo': label, 'written': text} if not st.samples else None)
        if problems:
            st.fail('foreign-tzinfo-written-with-wrong-zone', dict(sig, what='+'.join(problems)), c, {'value': dt.isoformat(), 'text': text, 'back': repr(back)})


def other_foreign(st, zone_list, locals_):
    import hszinc as hs
    olson_of = dict(zone_list)
    tzs = []
    for z in ('US/Eastern', 'Asia/Calcutta', 'America/Argentina/Buenos_Aires', 'Europe/Belfast', 'GB', 'Etc/GMT-14', 'Etc/GMT+12'):
        try:
            tzs.append(('pytz-unmapped:' + z, pytz.timezone(z)))
        except Exception:  # noqa
            pass
    tzs.append(('pytz-FixedOffset', pytz.FixedOffset(90)))
    try:
        import zoneinfo
        for z in ('Europe/London', 'America/New_York', 'Australia/Lord_Howe', 'Australia/Sydney', 'UTC'):
            tzs.append(('zoneinfo:' + z, zoneinfo.ZoneInfo(z)))
    except Exception:  # noqa
        pass
    for label, tz in tzs:
        # plus instants where two time-zone databases may disagree about the same zone name: beyond the last tabulated transition
        # (2038 and later, both halves of the year) and before standard time (local mean time with seconds)
        beyond = [datetime.datetime(y, m, 15, 12, 0, 0) for y in (2038, 2040, 2045, 2099) for m in (1, 7)] + \
                 [datetime.datetime(1890, 1, 1, 12, 0, 0), datetime.datetime(1850, 6, 1, 0, 0, 0), datetime.datetime(1901, 12, 13, 20, 45, 52)]
        # ... and, for a zone of another tz database, the neighbourhood of every transition of that very zone: both passes through a
        # repeated hour are distinct instants that differ in `fold` only (PEP 495), which the value's tzinfo honours
        own = []
        if label.startswith('zoneinfo:'):
            for t in transitions(label.split(':', 1)[1], True)[-8:]:
                for d in DELTAS + [datetime.timedelta(minutes=59, seconds=59), datetime.timedelta(minutes=-59, seconds=-59)]:
                    own.append(t + d)
        for loc in list(locals_) + beyond + own:
            for utc in (loc.replace(tzinfo=UTC),):
                try:
                    dt = utc.astimezone(tz)
                except Exception:  # noqa
                    continue
                judge_foreign(hs, dt, label, st, olson_of, {'kind': 'other', 'tz': label, 'utc': utc.isoformat()})
    # naive datetimes are not tz-aware: ValueError is the documented answer
    for mode in (hs.MODE_ZINC, hs.MODE_JSON):
        st.count('executions')
        try:
            hs.dump_scalar(datetime.datetime(2020, 1, 1), mode=mode)
            st.fail('naive-datetime-accepted', {}, {'kind': 'naive'}, {})
        except ValueError:
            pass
        except Exception as e:  # noqa
            st.fail('writer-raised-other-than-ValueError-for-foreign-tzinfo', {'exc': type(e).__name__, 'tzinfo': 'naive'}, {'kind': 'naive'}, {})


class _FaultyZoneList(object):
    """Stand-in for pytz.all_timezones whose iteration raises when it reaches position k (an environment fault:
    MemoryError / KeyboardInterrupt style) — the deviation from the default environment answer."""

    def __init__(self, names, k):
        self.names, self.k = names, k

    def __iter__(self):
        for i, n in enumerate(self.names):
            if i == self.k:
                raise MemoryError('injected while the zone map is being built')
            yield n

    def __len__(self):
        return len(self.names)

    def __contains__(self, x):
        return x in self.names

    def __getitem__(self, i):
        return self.names[i]


class _PytzProxy(object):
    def __init__(self, real, zone_list):
        self._real, self.all_timezones = real, zone_list

    def __getattr__(self, name):
        return getattr(self._real, name)


def interrupted_build_task(points, zone_map):
    """The first build of the zone-name map is interrupted at position k of the zone list; afterwards the library must
    behave as if nothing had happened (every later value is written and read with its own zone)."""
    import hszinc as hs
    from hszinc import zoneinfo as zi
    from mc import modstate
    st = Stats()
    names = list(pytz.all_timezones)
    probes = [(n, zone_map[n]) for n in ('Zurich', 'London', 'Abidjan', 'Yakutsk', 'UTC', 'Zulu') if n in zone_map]
    real = zi.pytz
    for k in points:
        modstate.restore()
        zi.pytz = _PytzProxy(real, _FaultyZoneList(names, k))
        first = 'no-exception'
        try:
            try:
                hs.dump_scalar(pytz.timezone('Europe/Zurich').localize(datetime.datetime(2021, 7, 1, 12, 0, 0)), mode=hs.MODE_ZINC)
            except MemoryError:
                first = 'MemoryError'
            except Exception as e:  # noqa
                first = type(e).__name__
        finally:
            zi.pytz = real
        st.count('executions')
        case = {'kind': 'interrupted-build', 'k': k}
        problem = None
        for name, olson in probes:
            dt = pytz.timezone(olson).localize(datetime.datetime(2021, 7, 1, 12, 0, 0))
            for fmt in ('zinc', 'json'):
                try:
                    text, back = roundtrip(hs, dt, fmt)
                    zone = getattr(back.tzinfo, 'zone', None) if isinstance(back, datetime.datetime) else None
                    if not isinstance(back, datetime.datetime) or back.tzinfo is None or (back - EPOCH) // US != (dt - EPOCH) // US \
                            or back.utcoffset() != dt.utcoffset() or zone != olson or not text.rstrip('"').endswith(name):
                        problem = '%s %s written as %r, read back as %r' % (fmt, olson, text, back)
                except Exception as e:  # noqa
                    problem = '%s %s raised %s' % (fmt, olson, type(e).__name__)
                if problem:
                    break
            if problem:
                break
        st.case(('interrupted-build', k), outcome=('interrupted', first, bool(problem)))
        if problem:
            st.fail('zone-lost-after-an-interrupted-first-use', {'first_call': first}, case, {'interrupted_at_zone_list_position': k, 'what': problem})
    modstate.restore()
    return st


# ---- two threads meet the lazily built zone-name map (Driver C on hszinc/zoneinfo.py) ---------------------------------
SHORT_ZONES = ['Africa/Abidjan', 'Africa/Cairo', 'America/New_York', 'Etc/GMT-2', 'Etc/UTC', 'Europe/London', 'Europe/Zurich', 'UTC']


def _zone_traced(code):
    return code.co_filename.endswith('hszinc/zoneinfo.py') and code.co_name not in ('<module>', '<listcomp>', '<genexpr>', '<dictcomp>', '<lambda>')


def zone_schedule_task(prefixes, bound, budget):
    """Both threads use a zone for the first time in the process (the map does not exist yet; pytz.all_timezones is replaced by an
    8-name stand-in so that the build is short): every interleaving at source-line granularity of hszinc/zoneinfo.py with at most
    `bound` preemptions.  Each thread must get the answers it gets when it runs alone."""
    import gc
    import hszinc as hs
    from hszinc import zoneinfo as zi
    from mc import modstate, sched
    st = Stats()
    real = zi.pytz
    zurich = pytz.timezone('Europe/Zurich').localize(datetime.datetime(2021, 7, 1, 12, 0, 0))
    cairo = pytz.timezone('Africa/Cairo').localize(datetime.datetime(2021, 7, 1, 12, 0, 0))
    expected = None

    def bodies(results):
        def a():
            results[0].append(hs.dump_scalar(zurich, mode=hs.MODE_ZINC))
            results[0].append(repr(hs.parse_scalar('2021-07-01T12:00:00+02:00 Cairo', mode=hs.MODE_ZINC).tzinfo))

        def b():
            results[1].append(hs.dump_scalar(cairo, mode=hs.MODE_JSON))
            results[1].append(repr(hs.parse_scalar('t:2021-07-01T12:00:00+02:00 Zurich', mode=hs.MODE_JSON).tzinfo))
        return [a, b]

    def make_run(prefix):
        gc.disable()
        modstate.restore()
        zi.pytz = _PytzProxy(real, list(SHORT_ZONES))
        results = [[], []]
        sc = sched.Scheduler(bodies(results), _zone_traced, list(prefix))
        problems = []
        try:
            try:
                sc.run()
            except sched.Deadlock as e:
                problems.append('deadlock: %s' % str(e)[:100])
        finally:
            zi.pytz = real
            gc.enable()
        for i in (0, 1):
            if sc.errors[i] is not None:
                problems.append('thread %d raised %s' % (i, type(sc.errors[i]).__name__))
        obs = (tuple(results[0]), tuple(results[1]))
        if not problems and expected is not None and obs != expected:
            problems.append('answers differ from the sequential ones: %r' % (obs,))
        st.case(('zone-schedule', tuple(sc.choices)), nontrivial=any(c != 0 for c in sc.choices), outcome=('zone-schedule', obs, bool(problems)),
                sample={'schedule': list(sc.choices)[:40], 'answers': [list(r) for r in results]} if any(sc.choices) and not st.samples else None)
        if problems:
            st.fail('zone-lost-when-two-threads-meet-the-unbuilt-zone-map', {'preemptions': sc.preemptions_before(len(sc.choices))},
                    {'kind': 'zone-schedule', 'schedule': list(sc.choices)}, {'what': problems[0], 'sequential': repr(expected)})
        return sc, obs
    # the sequential execution (no preemption) defines the expected answers
    sc0, expected = make_run([])
    st.failures, st.nfail = [], 0
    left = sched.explore_schedules(make_run, bound, st, prefixes, budget)
    modstate.restore()
    return st, left


def micro_task(zones, values):
    """Sub-second digits: every listed microsecond value (the hazard alphabet of ref/hazards.py) in a few zones, both formats."""
    import hszinc as hs
    st = Stats()
    for name, olson in zones:
        tz = pytz.timezone(olson)
        for us in values:
            utc = datetime.datetime(2021, 3, 3, 4, 5, 6, us, tzinfo=UTC)
            dt = utc.astimezone(tz)
            for fmt in ('zinc', 'json'):
                st.count('executions')
                case = {'kind': 'zone', 'zone': name, 'olson': olson, 'utc': utc.isoformat(), 'fmt': fmt}
                try:
                    text, back = roundtrip(hs, dt, fmt)
                except Exception as e:  # noqa
                    st.fail('mapped-zone-datetime-roundtrip-raised', {'fmt': fmt, 'exc': type(e).__name__, 'zone': name}, case, {'exc': repr(e)[:300]})
                    continue
                ok = isinstance(back, datetime.datetime) and back.tzinfo is not None and (back - EPOCH) // US == (utc - EPOCH) // US \
                    and back.utcoffset() == dt.utcoffset()
                st.case((name, utc.isoformat(), fmt), outcome=('micro', ok))
                if not ok:
                    st.fail('datetime-changed-through-roundtrip', {'fmt': fmt, 'what': 'instant', 'digits': 'sub-second'}, case,
                            {'text': text, 'expected': dt.isoformat(), 'observed': repr(back), 'microsecond': us})
    return st


def run(ctx):
    st = Stats()
    zone_list = map_checks(st)
    zl = list(zone_list)
    from ref import hazards
    us_values = hazards.microsecond_alphabet(300) if ctx.quick else hazards.microsecond_hazards()
    mz = [(n, o) for n, o in zone_list if n in ('UTC', 'New_York', 'Kathmandu')]
    for part in pmap(micro_task, [(mz, c) for c in chunks(us_values, ctx.jobs * 2)], ctx.jobs):
        st.merge(part)
    # interleavings of two first users of the zone map: preemption bound 1 (quick) / 2 (thorough), re-sharded until nothing is left
    from mc import sched as _sched
    part, left = zone_schedule_task([[]], 1 if ctx.quick else 2, 1)
    st.merge(part)
    work, rounds = left, 0
    while work:
        rounds += 1
        tasks = [(c, 1 if ctx.quick else 2, 200) for c in chunks(work, ctx.jobs * 2)]
        work = []
        for part, left in pmap(zone_schedule_task, tasks, ctx.jobs):
            st.merge(part)
            work.extend(left)
        if rounds > 2000:
            raise HarnessError('zone schedule exploration does not converge')
    points = list(range(0, len(pytz.all_timezones) + 1))
    for part in pmap(interrupted_build_task, [(c, dict(zone_list)) for c in chunks(points, ctx.jobs * 2)], ctx.jobs):
        st.merge(part)
    seeded_rng(ctx.seed, 'c17').shuffle(zl)
    for part in pmap(zone_task, [(c, ctx.quick) for c in chunks(zl, ctx.jobs * 4)], ctx.jobs):
        st.merge(part)
    locals_ = edge_local_times(zone_list)
    if ctx.quick:
        # every quarter hour, plus the minutes right next to every half hour and to the three-quarter offsets in use
        offsets = sorted(set(list(range(-840, 841, 15)) + [x + d for x in list(range(-840, 841, 30)) + [345, 525, 765, -570, -210] for d in (-1, 1)]))
        locs = locals_[::2]
    else:
        offsets = list(range(-840, 841))
        locs = locals_
    seeded_rng(ctx.seed, 'c17o').shuffle(offsets)
    for part in pmap(foreign_task, [(c, locs, zone_list) for c in chunks(offsets, ctx.jobs * 2)], ctx.jobs):
        st.merge(part)
    other_foreign(st, zone_list, locs)
    ex = st.c.get('executions', 0)
    st.c['states'], st.c['transitions'] = ex + 1, ex
    ntrans = sum(len(transitions(o, ctx.quick)) for _, o in zone_list)
    return {
        'stats': st, 'exhaustive': True,
        'rule': 'complete product: every mapped zone (%d on this host) x %s transition instants (%d in total, + 2 ordinary instants per zone) x 5 '
                'offsets around the transition x microseconds x {ZINC, JSON}; the zone map in both directions; fixed offsets %s minute(s) apart in '
                '-14h..+14h x %d local times that are ambiguous/skipped/ordinary in some mapped zone; unmapped pytz zones, pytz.FixedOffset, '
                'zoneinfo.ZoneInfo; plus %d microsecond values (those on which float arithmetic on the fraction is inexact: ref/hazards.py) in 3 zones x both formats; every interleaving (source lines of zoneinfo.py, preemption-bounded) of two threads that are the first users of the zone map, with an 8-name stand-in for the zone list; the first build of the zone map interrupted by an injected exception at every position of pytz.all_timezones (1 fault per execution), 5 zones x both formats afterwards; distinct = distinct (zone or tzinfo, instant, format)' % (
                    len(zone_list), 'first 2 + last 6' if ctx.quick else 'all tabulated (1850-2100)', ntrans, '15 (+ the neighbours of the half hours)' if ctx.quick else 1, len(locs), len(us_values)),
        'coverage': {'bounds': {'zones': len(zone_list), 'transition_instants': ntrans, 'fixed_offsets': len(offsets), 'edge_local_times': len(locs), 'hazard_microsecond_values': len(us_values)}},
        'assumptions': ['pytz transition tables and datetime arithmetic are the oracle for instants and offsets',
                        'a Haystack zone name is the last path segment of its Olson name'],
    }


def replay(case, st):
    import hszinc as hs
    from hszinc import zoneinfo as zi
    zone_list = sorted(zi.get_tz_map().items())
    k = case['kind']
    if k == 'zone':
        utc = datetime.datetime.fromisoformat(case['utc'])
        dt = utc.astimezone(pytz.timezone(case['olson']))
        sub = Stats()
        try:
            text, back = roundtrip(hs, dt, case['fmt'])
            if back != dt or back.utcoffset() != dt.utcoffset() or getattr(back.tzinfo, 'zone', None) != case['olson']:
                st.fail('datetime-changed-through-roundtrip', {'fmt': case['fmt']}, case, {'text': text, 'back': repr(back)})
        except Exception as e:  # noqa
            st.fail('mapped-zone-datetime-roundtrip-raised', {'fmt': case['fmt'], 'exc': type(e).__name__}, case, {'exc': repr(e)})
    elif k == 'fixed':
        loc = datetime.datetime.fromisoformat(case['local'])
        dt = loc.replace(tzinfo=datetime.timezone(datetime.timedelta(minutes=case['offset_min'])))
        judge_foreign(hs, dt, 'fixed%+d' % case['offset_min'], st, dict(zone_list), case)
    elif k == 'stale':
        tz = pytz.timezone(case['olson'])
        before = datetime.datetime.fromisoformat(case['utc_before']).replace(tzinfo=UTC).astimezone(tz)
        stale = before + datetime.timedelta(minutes=90)
        try:
            text, back = roundtrip(hs, stale, case['fmt'])
            if (back - EPOCH) // US != (stale - EPOCH) // US or getattr(back.tzinfo, 'zone', None) != case['olson']:
                st.fail('datetime-changed-through-roundtrip', {'fmt': case['fmt'], 'offset': 'stale-for-the-zone'}, case, {'text': text, 'back': repr(back)})
        except Exception as e:  # noqa
            st.fail('mapped-zone-datetime-roundtrip-raised', {'fmt': case['fmt'], 'exc': type(e).__name__}, case, {'exc': repr(e)})
    elif k == 'zone-schedule':
        sub, _ = zone_schedule_task([case['schedule']], 0, 1)
        st.merge(sub)
    elif k == 'interrupted-build':
        st.merge(interrupted_build_task([case['k']], dict(zone_list)))
    elif k == 'map':
        map_checks(st)
    else:
        other_foreign(st, zone_list, edge_local_times(zone_list))
