"""C14 — thin wrapper over props/gridhist.py (Driver B, Grid histories)."""
from props import gridhist


def run(ctx):
    return gridhist.run(ctx, 'C14')


def replay(case, st):
    gridhist.replay(case, st, 'C14')
