"""C18 — version numbers form a total order consistent with equality and hashing.

Complete enumeration (Driver A, product space): every ordered pair over the version-string
alphabet S, every triple over a sub-alphabet, nearest() on all of S, version-keyed grammar caches.
"""
import itertools
import operator

from mc.explore import Stats, pmap, chunks, Product, seeded_rng, HarnessError
from ref import refversion
from mc import modstate

NUMS = ['0', '1', '2', '3', '10']
SUFFIXES = ['', 'a', 'b', '-rc1', ' ', 'a9', 'a10', 'a1x']
# second pair space: few numbers, many suffixes (letter case, mixed case, non-ASCII letters with case, digits, blanks)
NUMS2 = ['2', '3']
SUFFIXES2 = ['', 'a', 'A', 'b', 'B', 'aB', 'Ab', '-rc1', '-RC1', 'a9', 'A9', u'\xe9', u'\xc9', u'\xdf', 'a b', 'a-1', '+', '~']


def alphabet(nums=NUMS, suffixes=SUFFIXES, groups=(1, 2, 3)):
    out = []
    for g in groups:
        for t in itertools.product(nums, repeat=g):
            for s in suffixes:
                out.append('.'.join(t) + s)
    return out


OPS = [('<', operator.lt, lambda c: c < 0), ('<=', operator.le, lambda c: c <= 0),
       ('==', operator.eq, lambda c: c == 0), ('!=', operator.ne, lambda c: c != 0),
       ('>=', operator.ge, lambda c: c >= 0), ('>', operator.gt, lambda c: c > 0)]


def shape(a, b):
    na, sa = refversion.split(a)
    nb, sb = refversion.split(b)
    return '%d/%d groups,%s/%s suffix' % (a.count('.') + 1, b.count('.') + 1,
                                          'no' if sa is None else 'with', 'no' if sb is None else 'with')


def check_pair(hs, a, b, st):
    """All observations the property makes about one ordered pair."""
    Version = hs.Version
    c = refversion.cmp(a, b)
    va, vb = Version(a), Version(b)
    before = (modstate._state(va), modstate._state(vb), str(va), str(vb))
    obs = []
    for name, op, want in OPS:
        for form, x, y in (('V,V', va, vb), ('V,str', va, b), ('str,V', a, vb)):
            try:
                got = op(x, y)
            except Exception as e:  # noqa
                got = 'raised %s' % type(e).__name__
            obs.append(got)
            if got is not want(c):
                st.fail('order-operator-wrong', {'op': name, 'form': form, 'ref': c, 'shape': shape(a, b)},
                        {'kind': 'pair', 'a': a, 'b': b},
                        {'expr': '%r %s %r (%s)' % (a, name, b, form), 'expected': want(c), 'observed': got})
    if c == 0:
        ha, hb = hash(va), hash(vb)
        obs.append(ha == hb)
        if ha != hb:
            st.fail('equal-versions-hash-differently', {'shape': shape(a, b)},
                    {'kind': 'pair', 'a': a, 'b': b},
                    {'expr': 'hash(Version(%r)) == hash(Version(%r))' % (a, b), 'expected': True, 'observed': False})
        if (vb in {va}) is not True or {va: 1}.get(vb) != 1:
            st.fail('equal-versions-not-interchangeable-as-keys', {'shape': shape(a, b)},
                    {'kind': 'pair', 'a': a, 'b': b}, {'expr': 'Version(%r) in {Version(%r)}' % (b, a)})
    after = (modstate._state(va), modstate._state(vb), str(va), str(vb))
    if after != before:
        # comparing, hashing or looking up a version is an observation: it must leave both operands as they were
        st.fail('comparison-changed-an-operand', {'shape': shape(a, b)}, {'kind': 'pair', 'a': a, 'b': b},
                {'before': list(before), 'after': list(after)})
    modstate.report_constants(st, {'kind': 'pair', 'a': a, 'b': b}, 'comparison of %r with %r' % (a, b))
    st.count('executions')
    st.case((a, b), nontrivial=(a != b), outcome=(c, tuple(obs[:6])))
    return c


def pairs_task(rows, S):
    import hszinc as hs
    st = Stats()
    for a in rows:
        for b in S:
            check_pair(hs, a, b, st)
    if rows:
        st.samples.append({'pair': [rows[0], S[len(S) // 2]], 'ref_cmp': refversion.cmp(rows[0], S[len(S) // 2])})
    return st


def triples_task(rows, T):
    import hszinc as hs
    V = {s: hs.Version(s) for s in T}
    st = Stats()
    for a in rows:
        for b in T:
            ab_le, ab_eq = V[a] <= V[b], V[a] == V[b]
            for c in T:
                st.count('executions')
                bc_le, ac_le = V[b] <= V[c], V[a] <= V[c]
                if ab_le and bc_le and not ac_le:
                    st.fail('order-not-transitive', {'rel': '<='}, {'kind': 'triple', 'a': a, 'b': b, 'c': c},
                            {'expr': '%r <= %r <= %r but not %r <= %r' % (a, b, c, a, c)})
                if ab_eq and (V[b] == V[c]) and not (V[a] == V[c]):
                    st.fail('order-not-transitive', {'rel': '=='}, {'kind': 'triple', 'a': a, 'b': b, 'c': c},
                            {'expr': '%r == %r == %r but not %r == %r' % (a, b, c, a, c)})
                if (V[a] < V[b]) and (V[b] < V[c]) and not (V[a] < V[c]):
                    st.fail('order-not-transitive', {'rel': '<'}, {'kind': 'triple', 'a': a, 'b': b, 'c': c},
                            {'expr': '%r < %r < %r but not %r < %r' % (a, b, c, a, c)})
    st.case(('triples', tuple(rows)), outcome=None)
    return st


def nearest_order_task(S, order, seed):
    """nearest() over all of S in one call order, in a worker whose module state is fresh."""
    st = Stats()
    ordered = sorted(S, key=refversion.key)
    if order == 'descending':
        ordered.reverse()
    elif order == 'shuffled':
        seeded_rng(seed, 'nearest').shuffle(ordered)
    nearest_checks(S, st, ordered)
    import hszinc as hs
    import warnings
    res = {}
    with warnings.catch_warnings():
        warnings.simplefilter('ignore')
        for v in ordered:
            try:
                res[v] = str(hs.Version.nearest(v))
            except Exception as e:  # noqa
                res[v] = 'raised ' + type(e).__name__
    return st, order, res


def nearest_checks(S, st, ordered=None):
    import hszinc as hs
    ordered = ordered if ordered is not None else sorted(S, key=refversion.key)
    monotone = ordered == sorted(S, key=refversion.key)
    prev = None
    for v in ordered:
        st.count('executions')
        try:
            n = hs.Version.nearest(v)
            ns = str(n)
            n2 = hs.Version.nearest(hs.Version(v))
            if str(n2) != ns and refversion.cmp(str(n2), ns) != 0:
                st.fail('nearest-differs-for-str-and-Version', {}, {'kind': 'nearest', 'v': v}, {'str': ns, 'Version': str(n2)})
        except Exception as e:  # noqa
            st.fail('nearest-raised', {'exc': type(e).__name__}, {'kind': 'nearest', 'v': v}, {'exc': repr(e)})
            continue
        canon = [o for o in refversion.OFFICIAL if refversion.cmp(o, ns) == 0]
        if not canon or not any(n == o for o in (hs.VER_2_0, hs.VER_3_0)):
            st.fail('nearest-not-official', {}, {'kind': 'nearest', 'v': v}, {'observed': ns})
            continue
        if not refversion.nearest_ok(v, canon[0]):
            st.fail('nearest-ignores-equal-official', {}, {'kind': 'nearest', 'v': v}, {'observed': ns})
        if monotone and prev is not None and refversion.cmp(prev[1], canon[0]) > 0:
            st.fail('nearest-not-monotone', {}, {'kind': 'nearest2', 'u': prev[0], 'v': v},
                    {'expr': 'nearest(%r)=%s > nearest(%r)=%s' % (prev[0], prev[1], v, canon[0])})
        prev = (v, canon[0])
        st.case(('nearest', v), outcome=('nearest', canon[0]))


def cache_checks(st):
    """Version-keyed grammar caches: every spelling of an official version selects that grammar."""
    import hszinc as hs
    from hszinc import zincparser as zp
    for table in ('hs_scalar', 'hs_grid'):
        t = getattr(zp, table, None)
        if t is None:
            continue
        for base, spellings in (('2.0', ['2', '2.0', '2.0.0', '02.00']), ('3.0', ['3', '3.0', '3.0.0', '3.00.0.0'])):
            want = t[hs.Version(base)]
            for s in spellings:
                for rep in (1, 2):
                    st.count('executions')
                    got = t[hs.Version(s)]
                    st.case(('cache', table, s, rep), outcome=('cache', base))
                    if got is not want:
                        st.fail('grammar-cache-wrong-grammar', {'table': table, 'base': base},
                                {'kind': 'cache', 'table': table, 's': s, 'base': base}, {})
    for text, ver, want in (('NA', '3.0.0', 'na'), ('[1]', '3', 'list')):
        st.count('executions')
        try:
            hs.parse_scalar(text, mode=hs.MODE_ZINC, version=ver)
        except Exception as e:  # noqa
            st.fail('grammar-cache-wrong-grammar', {'table': 'parse_scalar', 'base': '3.0'},
                    {'kind': 'scalar', 'text': text, 'ver': ver}, {'exc': repr(e)})


def run(ctx):
    S = alphabet()
    if ctx.quick:
        T = alphabet(nums=['0', '2', '10'], suffixes=['', 'a', 'b', 'a9', 'a10', 'a1x'], groups=(1, 2))       # 72 strings
    else:
        T = alphabet(nums=['0', '2', '10'], suffixes=['', 'a', 'b', ' ', 'a9', 'a10', 'a1x'], groups=(1, 2, 3))  # 273 strings
    rng = seeded_rng(ctx.seed, 'c18')
    rows = list(S)
    rng.shuffle(rows)
    st = Stats()
    for part in pmap(pairs_task, [(c, S) for c in chunks(rows, ctx.jobs * 4)], ctx.jobs):
        st.merge(part)
    S2 = alphabet(nums=NUMS2, suffixes=SUFFIXES2)
    for part in pmap(pairs_task, [(c, S2) for c in chunks(list(S2), ctx.jobs * 2)], ctx.jobs):
        st.merge(part)
    trows = list(T)
    rng.shuffle(trows)
    for part in pmap(triples_task, [(c, T) for c in chunks(trows, ctx.jobs * 4)], ctx.jobs):
        st.merge(part)
    results = {}
    for part, order, res in pmap(nearest_order_task, [(S, o, ctx.seed) for o in ('descending', 'shuffled', 'ascending')], ctx.jobs):
        st.merge(part)
        results[order] = res
    for v in S:
        answers = set(refversion.key(r[v]) if not r[v].startswith('raised') else r[v] for r in results.values())
        if len(answers) > 1:
            st.fail('nearest-depends-on-call-history', {}, {'kind': 'nearest-order', 'v': v}, {o: r[v] for o, r in results.items()})
    nearest_checks(S, st)
    cache_checks(st)
    pairs, triples, pairs2 = Product(S, S), Product(T, T, T), Product(S2, S2)
    ps, pt = pairs.tree_size()
    ts, tt = triples.tree_size()
    p2s, p2t = pairs2.tree_size()
    if st.c.get('executions', 0) < pairs.leaves() + triples.leaves() + pairs2.leaves():  # noqa
        raise HarnessError('enumeration incomplete')
    st.c['states'] = ps + ts + p2s + len(S)
    st.c['transitions'] = pt + tt + p2t + len(S)
    return {
        'stats': st, 'exhaustive': True,
        'rule': 'complete enumeration: all ordered pairs over S (1-3 numeric groups over %s x suffix %r), all triples over '
                'sub-alphabet T, nearest() on all of S in reference order, grammar-cache lookups; a case is non-trivial when '
                'the two strings differ; distinct = distinct (a,b)' % (NUMS, SUFFIXES),
        'coverage': {'bounds': {'|S|': len(S), 'pairs': pairs.leaves(), '|S2|': len(S2), 'pairs_S2': pairs2.leaves(), 'S2': [NUMS2, SUFFIXES2], '|T|': len(T), 'triples': triples.leaves(),
                                'operators': 6, 'operand_forms': 3}},
        'assumptions': ['order oracle = tuple order on (numeric groups without trailing zeros, suffix present, suffix)'],
    }


def replay(case, st):
    import hszinc as hs
    k = case['kind']
    if k == 'pair':
        check_pair(hs, case['a'], case['b'], st)
    elif k == 'triple':
        st.merge(triples_task([case['a']], [case['a'], case['b'], case['c']]))
    elif k == 'nearest-order':
        sub = Stats()
        for o in ('descending', 'ascending'):
            part, _, res = nearest_order_task(alphabet(), o, 0)
            st.merge(part)
    elif k in ('nearest', 'nearest2'):
        nearest_checks([case.get('u', case['v']), case['v']], st)
    else:
        cache_checks(st)
