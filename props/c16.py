"""C16 — ordered metadata maps keep dict content and documented order under every history.

Driver B: breadth-first search over operation histories on real SortableDict / MetadataObject
objects in lock-step with a list-of-pairs model; runs to the fixpoint of the reachable state space
over 4 keys (complete), so every state is also a non-initial starting point.
"""
from mc.explore import Stats, HarnessError
from mc import histories as H

KEYS = ['a', 'b', 'c', 'd']


class Model(object):
    """Reference ordered map: a list of [key, value] pairs; documented semantics only."""

    def __init__(self):
        self.p = []

    def keys(self):
        return [k for k, _ in self.p]

    def idx(self, k):
        return self.keys().index(k)

    def has(self, k):
        return k in self.keys()


def mvals(quick):
    """Values stored: item stores use mvals[0] (and mvals[1] in the thorough tier), every positioned insert and append uses
    2, metadata append without value stores MARKER — content is checked, but the order logic never looks at values."""
    return [1] if quick else [1, 3]


class MapSpec(H.Spec):
    name = 'sortabledict'
    cls = 'SortableDict'
    quick = True

    def __init__(self):
        import hszinc
        from hszinc.sortabledict import SortableDict
        self.hs = hszinc
        self.SD = SortableDict
        self.MO = hszinc.MetadataObject

    INITIALS = {'pairs': [['b', 1], ['a', 2]], 'pairs-with-repeated-key': [['a', 1], ['b', 2], ['a', 3]], 'tuple-of-pairs': (('c', 1), ('a', 2), ('c', 2)),
                'dict': {'c': 1, 'a': 2}, 'generator': [['d', 1], ['d', 2], ['a', 1]]}

    def roots(self):
        # an empty map, and maps built by the constructor from initial content (= the same item stores, one after the other)
        return ['SortableDict', 'MetadataObject'] + ['SortableDict:' + k for k in sorted(self.INITIALS)] + ['MetadataObject:pairs-with-repeated-key'] + \
            ['SortableDict:pairs:deepcopy', 'SortableDict:pairs:copy', 'MetadataObject:pairs:deepcopy', 'SortableDict:pairs:pickle']

    def fresh(self, root):
        cls, _, init = root.partition(':')
        init, _, how = init.partition(':')
        make = self.SD if cls == 'SortableDict' else self.MO
        if not init:
            return make(), Model()
        if how:
            # a copy of a map is a map of its own: the original is kept alive, re-ordered afterwards, and must not matter
            import copy
            import pickle
            orig, m = self.fresh(cls + ':' + init)
            if how == 'deepcopy':
                d = copy.deepcopy(orig)
            elif how == 'copy':
                d = make(list(orig.items()))          # a rebuilt copy (copy.copy of this class is documented nowhere)
            else:
                d = pickle.loads(pickle.dumps(orig))
            orig.reverse()
            orig['zz_only_in_the_original'] = 1
            self._keep = getattr(self, '_keep', [])
            self._keep.append(orig)
            del self._keep[:-50]
            m.how = how
            return d, m
        src = self.INITIALS[init]
        m = Model()
        for k, v in (src.items() if isinstance(src, dict) else src):
            if m.has(k):
                m.p[m.idx(k)][1] = v
            else:
                m.p.append([k, v])
        arg = dict(src) if isinstance(src, dict) else ((tuple(x) for x in src) if init == 'generator' else [tuple(x) for x in src])
        if init == 'tuple-of-pairs':
            arg = tuple(tuple(x) for x in src)
        return make(arg), m

    def val(self, v):
        return self.hs.MARKER if v == 'M' else v

    def ops(self, impl, model):
        if getattr(model, 'how', None):
            # a copy: the operations that read or rewrite the order, and a few stores (the full alphabet runs on the originals)
            ops = [('sort',), ('sort_rev',), ('reverse',), ('read_index', 'a'), ('read_index', 'b'), ('read_at', 0), ('set', 'c', 1), ('del', 'a'), ('del', 'b'),
                   ('add_pos', 'c', 2, 'a', True, True), ('add_pos', 'a', 2, 'b', False, True), ('add_index', 'b', 2, 0, False, True), ('pop_at', 0)]
            return [o for o in ops]
        ops = []
        vals = mvals(self.quick)
        n = len(model.p)
        for k in KEYS:
            for v in vals:
                ops.append(('set', k, v))
            for i in range(0, 6):
                for after in (False, True):
                    for rep in (True, False):
                        ops.append(('add_index', k, 2, i, after, rep))
            for pk in KEYS + ['zz']:
                for after in (False, True):
                    for rep in (True, False):
                        ops.append(('add_pos', k, 2, pk, after, rep))
            if k == 'a':
                ops.append(('set', k, None))
            ops.append(('add_both', k, 2, 0, 'a'))
            ops.append(('add_plain', k, 2, True))
            ops.append(('add_plain', k, 2, False))
            ops.append(('del', k))
            ops.append(('pop', k))
            ops.append(('pop_default', k))
        for i in list(range(0, 5)) + [-1]:
            ops.append(('pop_at', i))
        ops += [('sort',), ('sort_rev',), ('reverse',), ('clear',)]
        for kf in ('const', 'class', 'value'):
            ops.append(('sort_key', kf, False))
            ops.append(('sort_key', kf, True))
        for k in KEYS + ['zz']:
            ops.append(('read_index', k))
        ops.append(('read_at', 0))
        if isinstance(impl, self.MO):
            for k in KEYS:
                ops.append(('m_append', k))
                ops.append(('m_append_v', k, 2, False))
                ops.append(('m_append_v', k, 2, True))
            # None (a null tag, written tag:N) and other falsy values are values like any other: stored as given, on every path
            ops.append(('m_append_v', 'a', None, True))
            ops.append(('m_extend', [['b', None]], True))
            ops.append(('m_extend', [['a', 2], ['d', 1]], True))
            ops.append(('m_extend', [['b', 2], ['b', 1]], True))
            ops.append(('m_extend', [['c', 2], ['a', 1]], False))
            ops.append(('m_extend_dict', {'b': 2}))
            # the same through one-shot iterables (generator, zip, iterator): extend takes any iterable of pairs
            ops.append(('m_extend_iter', [['d', 2], ['c', 1]], False, 'gen'))
            ops.append(('m_extend_iter', [['d', 2]], False, 'zip'))
            ops.append(('m_extend_iter', [['a', 2], ['d', 1]], True, 'iter'))
            # the source is itself an ordered map whose order was reached by relocation / sort / reverse: its documented order counts
            ops.append(('m_extend_map', [['d', 2], ['c', 1]], True, 'relocated'))
            ops.append(('m_extend_map', [['d', 2], ['b', 1], ['a', 1]], False, 'reversed'))
            ops.append(('m_extend_map', [['c', 2], ['d', 1]], True, 'metadata-sorted'))
        return ops

    # ---- reference semantics -------------------------------------------------------------------
    def model_step(self, m, op):
        """-> ('ok', result, alternatives) | ('raise', {classes});  alternatives = other acceptable orders."""
        kind = op[0]
        p = m.p
        if kind == 'set' or kind == 'add_plain':
            k, v = op[1], op[2]
            if m.has(k):
                if kind == 'add_plain' and not op[3]:
                    return ('raise', {'KeyError'})
                p[m.idx(k)][1] = v
            else:
                p.append([k, v])
            return ('ok', None, None)
        if kind == 'add_both':
            return ('raise', {'ValueError'})
        if kind in ('add_index', 'add_pos'):
            k, v, pos, after, rep = op[1:6]
            if kind == 'add_pos' and not m.has(pos):
                return ('raise', {'KeyError'})
            if m.has(k) and not rep:
                return ('raise', {'KeyError'})
            alts = None
            if kind == 'add_pos':
                if pos == k:
                    # outside the documented contract: content right, other keys' relative order kept
                    others = [q for q in p if q[0] != k]
                    alts = []
                    for j in range(len(others) + 1):
                        alts.append([list(q) for q in others[:j]] + [[k, v]] + [list(q) for q in others[j:]])
                    p[m.idx(k)][1] = v
                    return ('ok', None, alts)
                rest = [q for q in p if q[0] != k]
                j = [q[0] for q in rest].index(pos) + (1 if after else 0)
                m.p = rest[:j] + [[k, v]] + rest[j:]
                return ('ok', None, None)
            # index: remove-then-insert-at-index (list.insert clamps): the key ends up AT the position the caller named,
            # which is the only reading under which 'position from the start of the array' is well defined
            i = pos + (1 if after else 0)
            rest = [q for q in p if q[0] != k]
            a = rest[:i] + [[k, v]] + rest[i:]
            m.p = a
            return ('ok', None, alts)
        if kind == 'del':
            if not m.has(op[1]):
                return ('raise', {'KeyError'})
            del p[m.idx(op[1])]
            return ('ok', None, None)
        if kind == 'pop':
            if not m.has(op[1]):
                return ('raise', {'KeyError'})
            return ('ok', p.pop(m.idx(op[1]))[1], None)
        if kind == 'pop_default':
            if not m.has(op[1]):
                return ('ok', 'dflt', None)
            return ('ok', p.pop(m.idx(op[1]))[1], None)
        if kind == 'pop_at':
            try:
                return ('ok', p.pop(op[1])[1], None)
            except IndexError:
                return ('raise', {'IndexError'})
        if kind == 'sort':
            p.sort(key=lambda q: q[0])
            return ('ok', None, None)
        if kind == 'sort_rev':
            p.sort(key=lambda q: q[0], reverse=True)
            return ('ok', None, None)
        if kind == 'reverse':
            p.reverse()
            return ('ok', None, None)
        if kind == 'sort_key':
            vals = dict((a, b) for a, b in p)       # taken first: a list looks empty to its own key function while it is being sorted
            p.sort(key=lambda q: self.keyfn(op[1], q[0], vals), reverse=op[2])   # list.sort is stable, also with reverse=True
            return ('ok', None, None)
        if kind == 'read_index':
            if not m.has(op[1]):
                return ('raise', {'ValueError'})
            return ('ok', m.idx(op[1]), None)
        if kind == 'read_at':
            if not p:
                return ('raise', {'IndexError'})
            return ('ok', p[op[1]][0], None)
        if kind == 'clear':
            del p[:]
            return ('ok', None, None)
        if kind == 'm_append':
            return self.model_step(m, ('add_plain', op[1], 'M', True))
        if kind == 'm_append_v':
            return self.model_step(m, ('add_plain', op[1], op[2], op[3]))
        if kind == 'm_extend_map':
            items = self.source_order(op[1], op[3])
            for k, v in items:
                r = self.model_step(m, ('add_plain', k, v, op[2]))
                if r[0] == 'raise':
                    return ('raise-partial', r[1])
            return ('ok', None, None)
        if kind in ('m_extend', 'm_extend_dict', 'm_extend_iter'):
            items = list(op[1].items()) if kind == 'm_extend_dict' else op[1]
            rep = True if kind == 'm_extend_dict' else op[2]
            for k, v in items:
                r = self.model_step(m, ('add_plain', k, v, rep))
                if r[0] == 'raise':
                    return ('raise-partial', r[1])
            return ('ok', None, None)
        raise HarnessError('unknown op %r' % (op,))

    def impl_step(self, d, op):
        kind = op[0]
        V = self.val
        if kind == 'set':
            d[op[1]] = V(op[2])
        elif kind == 'add_plain':
            return d.add_item(op[1], V(op[2]), replace=op[3])
        elif kind == 'add_both':
            return d.add_item(op[1], V(op[2]), index=op[3], pos_key=op[4])
        elif kind == 'add_index':
            return d.add_item(op[1], V(op[2]), index=op[3], after=op[4], replace=op[5])
        elif kind == 'add_pos':
            return d.add_item(op[1], V(op[2]), pos_key=op[3], after=op[4], replace=op[5])
        elif kind == 'del':
            del d[op[1]]
        elif kind == 'pop':
            return d.pop(op[1])
        elif kind == 'pop_default':
            return d.pop(op[1], 'dflt')
        elif kind == 'pop_at':
            return d.pop_at(op[1])
        elif kind == 'sort':
            return d.sort()
        elif kind == 'sort_rev':
            return d.sort(reverse=True)
        elif kind == 'reverse':
            return d.reverse()
        elif kind == 'sort_key':
            vals = dict((k, self.norm(v)) for k, v in d.items())
            return d.sort(key=lambda k: self.keyfn(op[1], k, vals), reverse=op[2])
        elif kind == 'read_index':
            return d.index(op[1])
        elif kind == 'read_at':
            return d.at(op[1])
        elif kind == 'clear':
            return d.clear()
        elif kind == 'm_append':
            return d.append(op[1])
        elif kind == 'm_append_v':
            return d.append(op[1], V(op[2]), replace=op[3])
        elif kind == 'm_extend':
            return d.extend([tuple(x) for x in op[1]], replace=op[2])
        elif kind == 'm_extend_dict':
            return d.extend(dict(op[1]))
        elif kind == 'm_extend_map':
            return d.extend(self.source_map(op[1], op[3]), replace=op[2])
        elif kind == 'm_extend_iter':
            pairs = [tuple(x) for x in op[1]]
            src = {'gen': (p for p in pairs), 'zip': zip([p[0] for p in pairs], [p[1] for p in pairs]), 'iter': iter(pairs)}[op[3]]
            return d.extend(src, replace=op[2])
        else:
            raise HarnessError('unknown op %r' % (op,))

    @staticmethod
    def source_order(pairs, how):
        """Documented order of the source map built by source_map()."""
        pairs = [list(p) for p in pairs]
        if how == 'relocated':
            return pairs[1:] + pairs[:1] if False else [pairs[-1]] + pairs[:-1]
        if how == 'reversed':
            return list(reversed(pairs))
        return sorted(pairs)

    def source_map(self, pairs, how):
        if how == 'metadata-sorted':
            src = self.MO()
        else:
            src = self.SD()
        for k, v in pairs:
            src[k] = v
        if how == 'relocated':
            k, v = pairs[-1]
            src.add_item(k, v, index=0)          # the last key moves to the front
        elif how == 'reversed':
            src.reverse()
        else:
            src.sort()
        return src

    @staticmethod
    def keyfn(name, k, vals):
        if name == 'const':
            return 0
        if name == 'class':
            return 0 if k in ('a', 'c') else 1
        return str(vals.get(k))

    def norm(self, v):
        return 'M' if v is self.hs.MARKER else v

    def items(self, d):
        return [[k, self.norm(v)] for k, v in d.items()]

    def sig(self, op, model_before):
        s = {'op': op[0]}
        if op[0] in ('add_index', 'add_pos'):
            s['after'] = op[4]
            s['replace'] = op[5]
            exists = op[1] in [k for k, _ in model_before]
            s['key_exists'] = exists
            if op[0] == 'add_pos' and exists and op[3] in [k for k, _ in model_before] and op[3] != op[1]:
                keys = [k for k, _ in model_before]
                s['key_vs_target'] = 'before' if keys.index(op[1]) < keys.index(op[3]) else 'after'
        return s

    def step(self, d, m, op, st, hist):
        before = [list(q) for q in m.p]
        impl_before = self.items(d)
        exp = self.model_step(m, op)
        got = H.outcome(self.impl_step, d, op)
        if hist is None:
            return True
        case = {'root': hist[0], 'history': hist[1]}
        after = self.items(d)
        if exp[0] == 'raise':
            if got[0] != 'raise' or got[1] not in exp[1]:
                st.fail('rejected-operation-not-rejected', dict(self.sig(op, before), expected='|'.join(sorted(exp[1])), observed=str(got[1] if got[0] == 'raise' else 'no exception')),
                        case, {'op': op, 'before': before, 'after': after})
                return False
            if after != impl_before:
                st.fail('rejected-operation-changed-the-map', self.sig(op, before), case, {'op': op, 'before': impl_before, 'after': after})
                return False
            return True
        if exp[0] == 'raise-partial':
            if got[0] != 'raise' or got[1] not in exp[1]:
                st.fail('rejected-operation-not-rejected', dict(self.sig(op, before), expected='|'.join(sorted(exp[1]))), case, {'op': op, 'before': before, 'after': after})
                return False
            m.p = [list(q) for q in after]   # partial application of a multi-item call is not pinned
            return True
        if got[0] == 'raise':
            st.fail('operation-raised', dict(self.sig(op, before), exc=got[1]), case, {'op': op, 'before': before})
            return False
        if exp[1] is not None and self.norm(got[1]) != exp[1]:
            st.fail('operation-returned-wrong-value', self.sig(op, before), case, {'op': op, 'expected': exp[1], 'observed': repr(got[1])})
        if after != m.p:
            if exp[2] and after in exp[2]:
                m.p = [list(q) for q in after]
                return True
            st.fail('order-or-content-differs-from-model', self.sig(op, before), case,
                    {'op': op, 'before': before, 'expected': m.p, 'observed': after, 'also_accepted': exp[2]})
            return False
        return True

    def check(self, d, m, st, hist):
        case = {'root': hist[0], 'history': hist[1]}
        keys = list(d)
        problems = []
        if len(set(keys)) != len(keys):
            problems.append('duplicate keys %r' % keys)
        if len(d) != len(m.p):
            problems.append('len %d != %d' % (len(d), len(m.p)))
        if self.items(d) != m.p:
            problems.append('items %r != %r' % (self.items(d), m.p))
        for i, (k, v) in enumerate(m.p):
            for what, f in (('at', lambda: d.at(i)), ('value_at', lambda: self.norm(d.value_at(i))), ('index', lambda: d.index(k)),
                            ('getitem', lambda: self.norm(d[k])), ('contains', lambda: k in d), ('get', lambda: self.norm(d.get(k)))):
                want = {'at': k, 'value_at': v, 'index': i, 'getitem': v, 'contains': True, 'get': v}[what]
                got = H.outcome(f)
                if got != ('ok', want):
                    problems.append('%s(%r)=%r want %r' % (what, k if what != 'at' else i, got, want))
        for k in KEYS + ['zz']:
            if not m.has(k):
                if H.outcome(lambda: k in d) != ('ok', False):
                    problems.append('%r reported present' % k)
                if H.outcome(lambda: d[k])[0] != 'raise':
                    problems.append('d[%r] did not raise' % k)
        if H.outcome(repr, d)[0] != 'ok':
            problems.append('repr raised')
        if problems:
            st.fail('map-observation-inconsistent', {'what': problems[0].split('(')[0].split(' ')[0]}, case, {'problems': problems[:6]})
            return False
        return True

    def key(self, d, m):
        order = getattr(d, '_order', None)
        values = getattr(d, '_values', None)
        hidden = ('unknown', id(d)) if order is None or values is None else (tuple(order), tuple(sorted((k, repr(v)) for k, v in values.items())))
        # any further instance attribute (a position cache, a memo) is part of the state: two histories that differ in it are not merged
        hidden = hidden + tuple((k, self.describe(d, v)) for k, v in sorted(vars(d).items()) if k not in ('_order', '_values', '_validate_fn'))
        return (type(d).__name__, getattr(m, 'how', None), tuple((k, repr(v)) for k, v in m.p), hidden)


def _describe(d, v):
    """Canonical description of an extra instance attribute: plain data by value; a callable by its name and by WHOSE it is (a bound
    method of one of the map's own attributes, of the map itself, or of a foreign object) — never by address."""
    if callable(v):
        owner = getattr(v, '__self__', None)
        whose = 'unbound'
        if owner is d:
            whose = 'self'
        elif owner is not None:
            whose = 'foreign'
            for k, x in vars(d).items():
                if x is owner:
                    whose = 'own.' + k
        return ('callable', getattr(v, '__name__', type(v).__name__), whose)
    return repr(v)[:200]


MapSpec.describe = staticmethod(_describe)


class QuickSpec(MapSpec):
    quick = True


class ThoroughSpec(MapSpec):
    quick = False


def run(ctx):
    factory = QuickSpec if ctx.quick else ThoroughSpec
    st, info = H.bfs(factory, depth=(6 if ctx.quick else 8), seed=ctx.seed, jobs=ctx.jobs, max_states=400000)
    if info.get('capped'):
        raise HarnessError('more than 400000 distinct states: the implementation carries state the canonical key cannot merge '
                           '(40 times the size of the space on the pinned tree) - aborted before memory runs out')
    st.outcomes |= set(list(st.inputs)[:1000])
    return {
        'stats': st, 'exhaustive': bool(info['fixpoint']),
        'rule': 'explicit-state BFS: every operation of the alphabet (item store, add_item with every index 0..5 / every pos_key incl. an '
                'unknown one x after x replace, both index and pos_key, delete, pop, pop_at, sort (also by key functions with ties), reverse, clear, index reads, '
                'MetadataObject append/extend from lists, dicts, one-shot iterables and re-ordered ordered maps) applied to every reachable state over keys a-d, '
                'from 8 roots (empty maps and maps built by the constructor from pairs / repeated keys / tuple / dict / generator); state = (class, ordered '
                'items, hidden _order/_values and every other attribute); distinct = distinct canonical states',
        'coverage': {'bounds': {'keys': KEYS, 'values': mvals(ctx.quick), 'max_depth': 6 if ctx.quick else 8, 'info': info}},
        'assumptions': ['index relocation = remove the key, then insert at the index named (the key ends up at that position); pos_key == key '
                        'only requires right content and unchanged relative order of the other keys (outside the documented contract)',
                        'partial application of a rejected multi-item extend() is not pinned'],
        'single_outcome_ok': False,
    }


def replay(case, st):
    spec = ThoroughSpec()
    d, m = spec.fresh(case['root'])
    hist = [tuple(op) if not isinstance(op, tuple) else op for op in case['history']]
    hist = [tuple(x if not isinstance(x, list) or i != 1 or op[0] != 'm_extend' else x for i, x in enumerate(op)) for op in hist]
    for i, op in enumerate(hist):
        last = i == len(hist) - 1
        ok = spec.step(d, m, op, st, (case['root'], [list(o) for o in hist[:i + 1]]) if last else None)
        if last and ok is not False:
            spec.check(d, m, st, (case['root'], [list(o) for o in hist]))
