#!/venv/bin/python
"""Regenerates /verif/MANIFEST.json from the table below (claimed checks) and properties.jsonl
(everything not claimed is listed under not_applicable with its reason)."""
import json
import os

HERE = os.path.dirname(os.path.dirname(os.path.abspath(__file__)))

# id -> (category, technique, level text, level note, design ref)
CLAIMED = {}
PENDING_REASON = 'check not built yet in this session (planned: DESIGN.md section 5); no claim is made'


def claim(pid, technique, text, note, ref, category='model_checking'):
    CLAIMED[pid] = (category, technique, text, note, ref)


claim('C18', 'exhaustive enumeration of all pairs/triples of a version-string alphabet against a reference key order',
      'Complete enumeration of every ordered pair over 775 version strings (6 operators x 3 operand forms, eq=>hash, '
      'set/dict interchangeability), every triple over a sub-alphabet, nearest() on every string in reference order and the '
      'version-keyed grammar caches, all on the real Version class. A total order is a for-all-pairs/triples law; inside the '
      'alphabet nothing is sampled.',
      'Trusts ref/refversion.py (tuple order on numeric groups without trailing zeros, then suffix). Strings outside the '
      'alphabet (more than 3 groups, other suffixes, invalid strings) are not covered.',
      'DESIGN.md 5 C18')


def main():
    props = [json.loads(l) for l in open(os.path.join(HERE, 'properties.jsonl'))]
    checks, na = [], []
    for p in props:
        pid = p['id']
        if pid in CLAIMED:
            cat, tech, text, note, ref = CLAIMED[pid]
            checks.append({
                'property_id': pid,
                'quick_cmd': './check %s --tier quick' % pid,
                'thorough_cmd': './check %s --tier thorough' % pid,
                'evidence_file': 'evidence/%s.json' % pid,
                'replay_cmd_template': './check %s --replay {path}' % pid,
                'engine': 'hszinc-mc',
                'level_claimed': {'category': cat, 'text': text, 'design_ref': ref},
                'level_note': note,
                'technique': tech,
            })
        else:
            na.append({'property_id': pid, 'reason': PENDING_REASON})
    man = {
        'version': 1,
        'setup_cmd': './tools/setup.sh',
        'hooks': {
            'guard': 'HSZINC_VERIF',
            'enable': 'none needed: checks import hszinc from /repo\'s working tree and observe it through the public API, '
                      'sys.settrace, sys.addaudithook and read-only getattr probes; HSZINC_VERIF is reserved and unused',
            'baseline_off_cmd': './tools/baseline.sh',
            'source_commits': [],
            'add_only': True,
        },
        'engines': [{
            'name': 'hszinc-mc', 'path': 'mc/',
            'serves_properties': sorted(CLAIMED),
            'kind_free_text': 'hand-written bounded-exhaustive explorer over the real implementation: deviation-bounded choice-tree '
                              'search and complete product spaces (mc/explore.py), explicit-state BFS over real-object histories in '
                              'lock-step with reference models (mc/histories.py), settrace thread scheduler with preemption bounding '
                              '(mc/sched.py)',
        }],
        'checks': checks,
        'not_applicable': na,
        'notes': 'Exit 0 = held on everything explored (KNOWN-FINDING lines possible), 1 = VIOLATION, 2 = harness error. '
                 'known_findings.json lists genuine defects (known / fixed). Fix commits in /repo start with "fix:".',
    }
    with open(os.path.join(HERE, 'MANIFEST.json'), 'w') as f:
        json.dump(man, f, indent=1)
        f.write('\n')
    print('MANIFEST.json: %d checks, %d not claimed' % (len(checks), len(na)))


if __name__ == '__main__':
    main()
