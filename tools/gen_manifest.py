#!/venv/bin/python
"""Regenerates /verif/MANIFEST.json from the table below (claimed checks) and properties.jsonl
(everything not claimed is listed under not_applicable with its reason)."""
import json
import os

HERE = os.path.dirname(os.path.dirname(os.path.abspath(__file__)))

# id -> (category, technique, level text, level note, design ref)
CLAIMED = {}
PENDING_REASON = 'no check is registered for this property (see DESIGN.md section 8.5)'


def claim(pid, technique, text, note, ref, category='model_checking'):
    CLAIMED[pid] = (category, technique, text, note, ref)


claim('C18', 'exhaustive enumeration of all pairs/triples of a version-string alphabet against a reference key order',
      'Complete enumeration of every ordered pair over 1240 version strings (plus a suffix-rich second alphabet of 108; operands and shared constants must be left unchanged) (6 operators x 3 operand forms, eq=>hash, '
      'set/dict interchangeability), every triple over a sub-alphabet, nearest() on every string in reference order and the '
      'version-keyed grammar caches, all on the real Version class. A total order is a for-all-pairs/triples law; inside the '
      'alphabet nothing is sampled.',
      'Trusts ref/refversion.py (tuple order on numeric groups without trailing zeros, then suffix). Strings outside the '
      'alphabet (more than 3 groups, other suffixes, invalid strings) are not covered.',
      'DESIGN.md 5 C18')

RT_NOTE = ('Trusts ref/neutral.py, ref/observe.py, ref/catalogue.py%s. Bounds: the 333-payload catalogue, <= 2 deviations (payloads, absent key, trims, map history, version declared by string/constant/detected, name sets) '
           'from the benign default at once (8 slots of a fixed skeleton: grid meta, column meta, two cells, list element, dict value, '
           'nested-grid cell and meta), 1-2 grids per document, nesting <= 3; Pint mode not explored (it renames units by design).')

claim('C01', 'deviation-bounded exhaustive enumeration of catalogue payloads over grid slots; dump -> own parse -> neutral comparison',
      'Every catalogue payload in every slot (d=1, complete) and every pair of payloads in every pair of slots (d=2; reduced catalogue in the '
      'quick tier) of a skeleton grid, under ver 2.0 and 3.0, single grid and two-grid documents, str and bytes input, plus the scalar API for '
      'every payload: hszinc.dump then hszinc.parse, result compared kind-by-kind and value-by-value with the neutral form of what was '
      'built. Exhaustive within those bounds; replaces the one random XStr-only grid of the suite.',
      RT_NOTE % '', 'DESIGN.md 5 C01')
claim('C02', 'deviation-bounded exhaustive enumeration of catalogue payloads over grid slots; JSON dump -> own parse -> neutral comparison',
      'Same enumeration as C01 through the JSON writer and reader, input given as text, bytes and pre-decoded object, single object and array '
      'of grids; numbers compared at the documented six decimals, everything else exactly.',
      RT_NOTE % '', 'DESIGN.md 5 C02')
claim('C04', 'deviation-bounded exhaustive enumeration; ZINC writer output judged by an independent strict reader',
      'Every case of C01 is dumped by hszinc and read by ref/refzinc.py, a hand-written recursive-descent reader of the ZINC grammar for the '
      'declared version that shares no code with hszinc: the text must be accepted (header, one column line, one line per row, exact cell '
      'count, only legal escapes, INF/-INF/NaN, 3.0 constructs only under 3.0) and must denote the grid that was built. Sees compensating '
      'writer/reader faults a same-library round trip cannot.',
      RT_NOTE % ', ref/refzinc.py (grammar: DESIGN.md Appendix A; lenient where the spec detail could not be re-read offline)', 'DESIGN.md 5 C04')
claim('C06', 'deviation-bounded exhaustive enumeration; JSON writer output judged by an independent strict reader',
      'Every case of C02 is dumped by hszinc, decoded with json.loads and read by ref/refjson.py (strict on shape, type prefixes and lexical '
      'forms, version-appropriate Remove spelling, array for lists of grids); the recovered grid must equal the grid that was built.',
      RT_NOTE % ', ref/refjson.py (DESIGN.md Appendix B)', 'DESIGN.md 5 C06')

claim('C20', 'exhaustive enumeration of operator x operand pair x operand shape against the same expression on bare values',
      'Complete product of 13 arithmetic/bitwise + 6 comparison operators x 19^2 boundary operands (zeros, negatives, 2^62, 2^53+1, 10^400, bool, tiny, huge, '
      'inf, nan) x 6 shapes (Quantity left, right, both with same / different / no unit) x units, 3-argument pow, 7 unary operators and '
      'conversions; the result must be identical in type and value (NaN- and signed-zero-aware) or raise the same exception class as the bare '
      'expression; comparisons across differing units must raise TypeError. The whole space is run a second time with hszinc switched to its '
      'Pint-backed Quantity class (use_pint; units Pint knows; bool magnitudes excluded because Pint refuses them), with pickled / copied operands.',
      'Oracle is the same Python expression on the bare values in the same interpreter. int**int with exponent > 64 and int<<int > 4096 are '
      'skipped (the bare expression does not terminate). hash() and bool() are not part of the statement.',
      'DESIGN.md 5 C20')

HIST_NOTE = ('Trusts the reference model named in the text and the canonical state key (model state + hidden implementation state read through '
             'getattr probes; an unknown hidden state is never merged). Bounds are the operation alphabet, the row/key universe and the depth '
             'given in evidence coverage.bounds; longer histories and larger grids are not covered.')
claim('C10', 'explicit-state BFS over entry-path histories (incl. observation reads, copies, earlier activity from the import-time module state) on the real Grid with a gating invariant; exhaustive agreement matrix over deciders',
      'Breadth-first search over histories of all 22 entry paths (incl. extend / += fed by generators and by another Grid) x 7 value kinds from 154 roots (7 declared versions x constructor variants) on a '
      'real Grid: after every step the gating invariant (explicit pre-3.0 version => ValueError and no 3.0-only value reachable; no version given '
      '=> reports >= 3.0 as soon as one is reachable) and both writers (refuse with ValueError or declare >= 3.0) are evaluated; every state\'s slices and filter results obey the same invariant; plus the complete '
      'matrix 6 versions x 7 kinds x 7 deciders, nested pre-3.0 grids inside 3.0 documents, (Grid, ZINC/JSON writer, ZINC/JSON grid reader, ZINC/JSON scalar reader) who must all refuse '
      'exactly when the declared version is below 3.0.',
      HIST_NOTE, 'DESIGN.md 5 C10')
claim('C14', 'explicit-state BFS over operation histories on the real Grid in lock-step with a Python list',
      'Every operation of the MutableSequence alphabet (append, insert at -3..3, +=, extend incl. generators and a non-dict in the middle, item '
      'assignment, del index/slice, pop, remove, reverse, clear, id lookups as state-changing reads) applied to every reachable state of a real '
      'Grid of <= 3 rows over a row universe with/without ids, duplicate ids and non-dict rows, including grids derived by slicing and filtering; '
      'after every step len, iteration, g[i] for in- and out-of-range i, slices (rows and carried version/metadata/columns), membership and the '
      'operation\'s own return value/exception class are compared with a plain list holding the same row objects.',
      HIST_NOTE, 'DESIGN.md 5 C14')
claim('C15', 'explicit-state BFS over operation histories on the real Grid; id lookups compared with a scan of the current rows',
      'Same histories as C14 over rows whose ids are str, int, Ref (with and without display), duplicated or absent; after every step grid[key] and '
      'grid.get(key, default) for every key of the universe (and an absent one) must return a row that is currently in the grid with str(id) == '
      'str(key), or KeyError/default when there is none - never a removed row, never another exception. The hidden id index (None / content incl. '
      'stale entries) is part of the state key.',
      HIST_NOTE, 'DESIGN.md 5 C15')
claim('C16', 'explicit-state BFS to the fixpoint over operation histories on real SortableDict/MetadataObject vs a list-of-pairs model',
      'All operations (item store, add_item with every index 0..5 and every pos_key incl. an unknown one x after x replace, both index and pos_key, '
      'delete, pop, pop_at, sort, reverse, clear, MetadataObject append/extend) applied to every reachable state over 4 keys until no new state '
      'appears: keys unique, len, ordered items, at/value_at/index/get/in, return values, and a rejected operation changes nothing. The complete '
      'reachable state space inside the key/value alphabet is covered, so every state is also a non-initial start.',
      HIST_NOTE + ' Index relocation accepts both readings of "index"; pos_key == key only requires right content and order of the other keys.',
      'DESIGN.md 5 C16')

claim('C03', 'deviation-bounded exhaustive enumeration of documents from an independent grammar-directed ZINC writer, parsed by hszinc',
      'ref/refzinc.py renders 10 base grids (all value kinds, metadata, nested collections and grids) with a choice at every token (and at the entry point: parse() or the same text as a nested-grid literal through parse_scalar; input also as BOM-less UTF-16 and single-byte charsets): separator '
      'blanks, N vs empty cell, _ digit groups, exponent forms, every escape form of every string/URI character, LF/CRLF, trailing blanks, '
      'list/dict layouts, T/t and Z/z, fraction digits, final newline present/absent/blank line, 0-3 grids per document, str or bytes in '
      'utf-8/utf-16/latin-1, single flag. ALL documents with at most d non-canonical choices are parsed by hszinc and compared with the neutral '
      'value the writer spelled (d = 2 quick on the cheap grids, 2-3 thorough). Spellings are combined, which the fixed test documents never do.',
      'Trusts ref/refzinc.py (self-tested against its own reader at start-up), ref/observe.py. The version header is always spelled plainly. '
      'Forms DESIGN.md 8.4 marks as uncertain are never emitted.', 'DESIGN.md 5 C03')
claim('C05', 'deviation-bounded exhaustive enumeration of documents from an independent Haystack-JSON writer, parsed by hszinc',
      'ref/refjson.py renders 11 base grids with a choice at every value (n:1 / n:1.0 / n:1e0 / raw JSON number, both Remove spellings, times with or '
      'without seconds/fraction, Z vs +00:00, bare vs s:-prefixed strings incl. strings that look like JSON or like other type prefixes, rows '
      'missing/null/[], omitted null cells, object vs array) x input form (str, bytes, pre-decoded object, pre-decoded object whose equal sub-objects are one shared Python object) x single flag x 1-3 grids; '
      'all documents with <= 3 deviations, and every 1-4-digit (thorough: every 1-6-digit) second fraction through the time and date-time decoders, must decode to the neutral value spelled, and a pre-decoded input object must be left unchanged.',
      'Trusts ref/refjson.py and ref/observe.py.', 'DESIGN.md 5 C05')
claim('C07', 'exhaustive enumeration of parsed documents pushed through every dump/transcode chain with purity, determinism and idempotence oracles',
      'Every C03/C05 document with <= d spelling deviations (incl. grids declared 2.5, 3.0.0 and 4.0 and date-times without zone name) and every '
      'catalogue payload in every skeleton slot dumped by hszinc in either format is parsed, then for both target formats: dumped twice (identical '
      'text), observed before/after (grid unchanged), re-parsed (equal grid), dumped again (character-identical: normalisation idempotent), '
      'transcoded to the other format and back (equal up to the JSON six-decimal rule). No exception is allowed anywhere in a chain.',
      'Documents whose first parse fails are skipped (C01/C02/C03/C05 decide those). Trusts ref/observe.py and ref/neutral.py comparison.',
      'DESIGN.md 5 C07')
claim('C08', 'complete enumeration of code points and short metacharacter strings in every text-carrying position, both formats',
      'Thorough: all 1,114,112 code points as one-character payloads in the four positions that have their own writer/reader code (string cell, URI '
      'cell, reference display name, extended-string payload), the quick code-point set in the five container positions, every string of length <= 3 '
      'over a 16-symbol metacharacter alphabet and 44 prefix/keyword look-alikes in all nine positions, ZINC and JSON. Each payload sits between two '
      'sentinel cells in a two-grid document; the re-parsed document must have the same grids/rows/cells, unchanged neighbours and the identical '
      'payload of the same kind. Quick: U+0000-U+02FF, both sides of every range boundary read from the regex literals of the anchored files, one '
      'code point per Unicode category, surrogates and plane edges.',
      'Packing many payloads per grid is for throughput only; every reported failure is re-established on a single-payload document.',
      'DESIGN.md 5 C08')

claim('C09', 'complete one-step mutation closure and short-string enumeration fed to the real ZINC parser with exception-type, position and mis-parse oracles',
      'Every single deletion, truncation, replacement and insertion (over a 31-symbol delimiter alphabet; 18 in the quick tier) at every offset of 12 '
      'seed documents that together hold every construct, every splice of two bracketed spans (thorough), every string of length <= 4 (3 quick) over '
      'a 12-token alphabet as whole document / 3.0 body / 2.0 body / scalar under both versions, the same one-step mutation closure of 24 well-formed scalars through the scalar API, 70 semantically broken scalars alone, in metadata '
      'and in a cell, and three stdout environments on the error path. Oracle: grids or ZincParseException (a ValueError) with line/col inside the '
      'text; scalar API only ValueError; a per-case 30 s alarm; a text an independent structural scanner calls definitely broken must never yield a '
      'grid; when hszinc and the strict reference reader both accept, the grids must agree.',
      'The scanner is sound but incomplete; texts hszinc accepts leniently (reference rejects, scanner silent) are counted, not alarmed. Nesting depth '
      '<= 3. Trusts ref/refzinc.py for the agreement oracle.', 'DESIGN.md 5 C09')
claim('C17', 'complete enumeration of zone x transition instant x offset x microsecond x format round trips against pytz; fault injection at every position of the lazily built zone map and preemption-bounded interleavings of its two first users',
      'Every zone hszinc maps on this host (measured, 366 here) x every pytz transition instant between 1850 and 2100 (thorough; first 2 + last 6 per zone '
      'quick) x {-30 min, -1 s, 0, +1 s, +30 min} x microseconds x {ZINC, JSON}: the value read back must denote the same instant, the same UTC '
      'offset and the same zone; the name<->tz map must be injective, mutually inverse and name = city of its tz. Foreign tzinfo: fixed offsets for '
      'every whole minute -14h..+14h (every 15 min quick) at local times that are ambiguous/skipped/ordinary in some mapped zone, unmapped pytz zones, '
      'pytz.FixedOffset, zoneinfo.ZoneInfo: the writer must raise ValueError or name a zone whose offset at that instant equals the value\'s offset, '
      'with the instant unchanged; any other exception is a violation.',
      'pytz tables and datetime arithmetic are the oracle. Instants compared by subtraction (PEP 495: == across zones is False for fold-ambiguous '
      'times).', 'DESIGN.md 5 C17')
claim('C19', 'complete enumeration of value pairs/triples and grid pairs differing in one slot against the equality laws',
      'All ordered pairs over the 256 must-hold catalogue values (==, !=, reflected ==, hash when both hashable, copy/deepcopy/independently rebuilt '
      'value, singleton identity), all triples over the per-kind representatives (transitivity), and for grids every (version, slot, v): equal to an '
      'independently built copy (and != False), equal to its own ZINC and JSON round trip where that round trip is exact, and == False / != True - '
      'never an exception - against g(w) for every w whose neutral form differs beyond the documented tolerance; 9 single structural differences in '
      'both orders; grids against non-grids; every ordered pair of 5 tzinfo providers (zoneinfo, a PEP 495 class, fixed offsets, pytz) x 7 London wall-clock '
      'readings incl. both passes through the repeated hour, in 4 grid positions (same reading and offset => equal, a second or more apart => unequal).',
      'Not pinned (tolerated either way): bool vs number, NaN payloads, one instant in two zones, XStr differing only in type, sub-tolerance '
      'differences. Quantity vs plain number compares the value (C20).', 'DESIGN.md 5 C19')

claim('C11', 'exhaustive enumeration of filter ASTs (all and/or trees, all atoms) x row valuations against a three-valued reference evaluator',
      'The generator builds the filter AST, renders it with spacing/parenthesis variation and evaluates the real Grid.filter / generated function: '
      '(1) EVERY and/or tree with <= 4 leaves (5 thorough), every leaf polarity, 4-9 renderings, on the grid of all presence valuations (the truth '
      'table identifies the boolean function, so a wrong fold, precedence or associativity cannot hide); (2) every literal kind of the filter grammar '
      '(30) x path shape (a, r->a, r->r->a, r->r, a->a, a->r->a, p->q->a, names that begin with not/and/or) x has/not/six comparisons x id style (str, Ref, Ref with display) on rows '
      'realising absent, null, marker, equal, just below, just above, other kind, dangling reference, missing reference tag; (3) every atom under 8 '
      'connective positions; (4) limit, empty filter, result header (also for unversioned sources), identity and order of result rows, source grid and what it answers '
      'to id lookups untouched (compared with a never-filtered twin).',
      'Oracle ref/reffilter.py is three-valued (DESIGN.md Appendix C): where the statement does not fix the answer the atom is a don\'t-care and a row '
      'is compared only when the whole formula is definite; an exception on a definite row is a violation. Larger trees and other literals are not '
      'covered.', 'DESIGN.md 5 C11')
claim('C12', 'complete product of canary payloads x grammar positions x enclosing shapes under audit-hook, wrapped global setters, canary, stdout, semantic-probe and global-state monitors',
      '24 callable names (builtins, hszinc internals, a planted canary) as extended-string type with effectful arguments, 16 quote/backslash/newline '
      'break-out strings and 21 builtin/keyword-like names are placed in every literal and identifier position of the filter grammar (xstr type and '
      'payload alone / in a list / in a dict / after a path, string, URI, reference name and display, list element, dict key and value, tag name, path '
      'segment, unit, zone, Bin) x 5 enclosing shapes; each filter runs after a benign twin of the same kind. Violations: the canary ran, any audited '
      'event other than compiling/executing the generated def (open, import, exec/compile of other text, os.*, subprocess, socket ...), audit events '
      'differing from the twin, a write to stdout, a probe row that is only selected if the payload was evaluated, a change of builtins / sys.modules / '
      'os.environ / cwd / hszinc module globals (identity and content of containers), a modified grid; 19 unit payloads x 9 filter forms in Pint mode under a fingerprint of the shared unit registry; 57 texts that are not filters must be rejected with pyparsing\'s ParseException.',
      'Effects no monitor can observe (pure computation whose value no probe row matches) are outside the check. Payloads are inert by construction.',
      'DESIGN.md 5 C12')
claim('C13', 'exhaustive preemption-bounded enumeration of thread interleavings of the real code under a settrace scheduler; exhaustive short cache and data-change histories',
      'Real threads run the real Grid.filter under a deterministic scheduler whose scheduling points are the source lines of the non-lambda functions '
      'of hszinc/grid_filter.py and of Grid.filter; ALL interleavings with at most the stated number of preemptions are executed for 9 thread plans (two of them with reference-following filters whose evaluation walks the shared grid) '
      '(2 and 3 threads, distinct and identical filters, cache capacity real / 1 / 2): quick = bound 2 for two distinct filters, 1 otherwise; thorough '
      '= 3 with two threads, 2 with three. Each execution ends with a sequential post-phase re-evaluating every filter and every function object '
      'obtained earlier; results must equal the reference evaluator, no thread may raise, no finaliser may raise (sys.unraisablehook), no deadlock; a '
      'failing schedule is replayed and must fail identically. Plus every request history of length <= 5 (6) over 4 filters with capacity 1 and 2, every ordered pair (thorough: a third of the triples) '
      'of 21 near-colliding filters (same text up to the kind of the literal, blanks or parentheses), and individual long histories around the '
      'real capacity (499..502 cyclic, hot/cold 1100 and 2x520; thorough up to 5200).',
      'Interleavings below source-line granularity and inside C code (functools.lru_cache) are not explored; gc is disabled during an execution. The '
      'long histories are single runs, not exhaustive. Real Lock/RLock objects in grid_filter\'s globals are replaced by scheduler-aware locks.',
      'DESIGN.md 5 C13')


def main():
    props = [json.loads(l) for l in open(os.path.join(HERE, 'properties.jsonl'))]
    checks, na = [], []
    for p in props:
        pid = p['id']
        if pid in CLAIMED:
            cat, tech, text, note, ref = CLAIMED[pid]
            checks.append({
                'property_id': pid,
                'quick_cmd': './check %s --tier quick' % pid,
                'thorough_cmd': './check %s --tier thorough' % pid,
                'evidence_file': 'evidence/%s.json' % pid,
                'replay_cmd_template': './check %s --replay {path}' % pid,
                'engine': 'hszinc-mc',
                'level_claimed': {'category': cat, 'text': text, 'design_ref': ref},
                'level_note': note,
                'technique': tech,
            })
        else:
            na.append({'property_id': pid, 'reason': PENDING_REASON})
    man = {
        'version': 1,
        'setup_cmd': './tools/setup.sh',
        'hooks': {
            'guard': 'HSZINC_VERIF',
            'enable': 'none needed: checks import hszinc from /repo\'s working tree and observe it through the public API, '
                      'sys.settrace, sys.addaudithook and read-only getattr probes; HSZINC_VERIF is reserved and unused',
            'baseline_off_cmd': './tools/baseline.sh',
            'source_commits': [],
            'add_only': True,
        },
        'engines': [{
            'name': 'hszinc-mc', 'path': 'mc/',
            'serves_properties': sorted(CLAIMED),
            'kind_free_text': 'hand-written bounded-exhaustive explorer over the real implementation: deviation-bounded choice-tree '
                              'search and complete product spaces (mc/explore.py), explicit-state BFS over real-object histories in '
                              'lock-step with reference models (mc/histories.py), settrace thread scheduler with preemption bounding '
                              '(mc/sched.py)',
        }],
        'checks': checks,
        'not_applicable': na,
        'notes': 'Exit 0 = held on everything explored (KNOWN-FINDING lines possible), 1 = VIOLATION, 2 = harness error. '
                 'known_findings.json lists genuine defects (known / fixed). Fix commits in /repo start with "fix:".',
    }
    with open(os.path.join(HERE, 'MANIFEST.json'), 'w') as f:
        json.dump(man, f, indent=1)
        f.write('\n')
    print('MANIFEST.json: %d checks, %d not claimed' % (len(checks), len(na)))


if __name__ == '__main__':
    main()
