#!/bin/sh
# tools/import_wave.sh <wave dir prefix, e.g. /tmp/seed4_> <Cnn> <mN in wave> <new suffix, e.g. m5> [props...]
PFX=$1; P=$2; M=$3; NEW=$4; shift 4
D=/verif/seeded/$P-$NEW
mkdir -p $D && cp ${PFX}$P/$M/* $D/ 2>/dev/null
cd /verif
tools/seeded.py verify $D > $D/verify.json 2>&1
CONF=$(grep -c '"confirmed": true' $D/verify.json)
echo "$P-$NEW confirmed=$CONF"
[ "$CONF" = "1" ] || { head -12 $D/verify.json; }
tools/seeded.py run $D ${@:-$P}
