#!/bin/sh
# tools/import_seed3.sh Cnn mN newname : copy /tmp/seed3_Cnn/mN into seeded/Cnn-newname, verify it, run its property's check
P=$1; M=$2; NEW=$3; D=/verif/seeded/$P-$NEW
mkdir -p $D && cp /tmp/seed3_$P/$M/* $D/ 2>/dev/null
cd /verif
tools/seeded.py verify $D > $D/verify.json 2>&1
CONF=$(grep -c '"confirmed": true' $D/verify.json)
echo "$P-$NEW confirmed=$CONF"
[ "$CONF" = "1" ] || { cat $D/verify.json | head -12; }
tools/seeded.py run $D $P
