#!/venv/bin/python
"""Debug helper: run a check's run() in-process and print its failures grouped by chosen sig keys."""
import os, sys, collections, json, warnings
os.environ.setdefault('PYTHONHASHSEED', '0')
sys.path[:0] = ['/repo', os.path.dirname(os.path.dirname(os.path.abspath(__file__)))]
warnings.simplefilter('ignore')
from mc import runner, explore
explore.silence_stdout()
import importlib
prop, keys = sys.argv[1], sys.argv[2].split(',')
mod = importlib.import_module('props.' + prop.lower())
res = mod.run(runner.Ctx(prop.upper(), os.environ.get('VERIF_TIER', 'quick'), 0, explore.default_jobs()))
known, viol = runner.classify(prop.upper(), res['stats'].failures)
c = collections.Counter()
ex = {}
for key, f, n, fixed in viol:
    k = (f['symptom'],) + tuple(str(f['sig'].get(x)) for x in keys)
    c[k] += n
    ex.setdefault(k, f)
for k, v in sorted(c.items()):
    sys.stderr.write('%5d %s\n      e.g. %s | %s\n' % (v, k, json.dumps(ex[k]['case'])[:200], json.dumps(runner.jsonable(ex[k]['detail']))[:260]))
