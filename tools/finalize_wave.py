#!/venv/bin/python
"""tools/finalize_wave.py <histories.json> : completes seeded/<id>/meta.json of a wave from verify.json / result.json.

histories.json: {"origin": "...", "ids": ["C01-m14", ...], "history": {"<id>": "what was strengthened after the first run missed it"},
                 "detected_by_override": {"<id>": {"Cnn": "text"}}}
"""
import json, os, sys
HERE = os.path.dirname(os.path.dirname(os.path.abspath(__file__)))
spec = json.load(open(sys.argv[1]))
for sid in spec['ids']:
    d = os.path.join(HERE, 'seeded', sid)
    meta = json.load(open(os.path.join(d, 'meta.json')))
    ver = {}
    try:
        txt = open(os.path.join(d, 'verify.json')).read()
        ver = json.loads(txt[txt.index('{'):])
    except Exception:
        pass
    res = json.load(open(os.path.join(d, 'result.json'))) if os.path.exists(os.path.join(d, 'result.json')) else {}
    meta['id'] = sid
    meta['property'] = sid.split('-')[0]
    meta['confirmed'] = {'suite_green_with_change': ver.get('suite_with'), 'demo_fails_with_change': ver.get('demo_with'),
                         'demo_passes_without': ver.get('demo_without')}
    meta['ran'] = 'tools/seeded.py verify + run (git -C /repo apply patch.diff; ./check <prop> --tier quick; git -C /repo checkout -- .)'
    det = {p: 'exit %d, %d violation signatures' % (r['exit'], r['violations']) for p, r in sorted(res.items()) if r.get('exit') == 1 and r.get('violations')}
    det.update(spec.get('detected_by_override', {}).get(sid, {}))
    meta['detected_by'] = det
    meta['origin'] = spec['origin']
    if sid in spec.get('history', {}):
        meta['history'] = 'first run: MISSED; ' + spec['history'][sid]
    else:
        meta.pop('history', None)
    json.dump(meta, open(os.path.join(d, 'meta.json'), 'w'), indent=1, ensure_ascii=False)
    print(sid, sorted(det) or 'NOT DETECTED', 'missed-first' if 'history' in meta else 'caught')
