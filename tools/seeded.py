#!/venv/bin/python
"""Run checks against a seeded change.

  tools/seeded.py verify <dir>          confirm the change: applies, suite green, demo fails with / passes without
  tools/seeded.py run <dir> [Cnn ...]    apply <dir>/patch.diff to /repo, run the quick checks (default: the property in meta.json,
                                         or all with ALL), undo the patch, store <dir>/result.json
The evidence directory is saved before and restored after, so evidence always describes the unchanged tree.
/repo is always restored (git checkout -- .), also on errors.
"""
import json
import os
import shutil
import subprocess
import sys
import tempfile
import time

HERE = os.path.dirname(os.path.dirname(os.path.abspath(__file__)))
REPO = '/repo'
ALL = ['C%02d' % i for i in range(1, 21)]


def sh(cmd, cwd=None, timeout=3600):
    p = subprocess.run(cmd, shell=True, cwd=cwd, stdout=subprocess.PIPE, stderr=subprocess.STDOUT, timeout=timeout, universal_newlines=True)
    return p.returncode, p.stdout


def clean():
    rc, out = sh('git -C %s status --porcelain' % REPO)
    return out.strip() == ''


def apply(patch):
    rc, out = sh('git -C %s apply --whitespace=nowarn %s' % (REPO, patch))
    if rc != 0:
        raise SystemExit('patch does not apply: %s' % out)


def undo():
    sh('git -C %s checkout -- .' % REPO)
    sh('git -C %s clean -fdq -- hszinc tests' % REPO)


def suite():
    rc, out = sh(os.path.join(HERE, 'tools/baseline.sh'))
    return rc == 0, out.strip().splitlines()[-1] if out.strip() else ''


def demo(d):
    path = None
    for name in ('demo_test.py', 'demo.py', 'test_demo.py'):
        if os.path.exists(os.path.join(d, name)):
            path = os.path.join(d, name)
    if path is None:
        return None, 'no demo'
    rc, out = sh('cd %s && /venv/bin/python -m pytest -q -p no:cacheprovider %s 2>&1 | tail -3' % (REPO, path))
    rc, out = sh('cd %s && /venv/bin/python -m pytest -q -p no:cacheprovider %s' % (REPO, path))
    return rc == 0, out.strip().splitlines()[-1] if out.strip() else ''


def verify(d):
    if not clean():
        raise SystemExit('/repo is not clean')
    patch = os.path.join(d, 'patch.diff')
    res = {}
    ok0, msg0 = demo(d)
    res['demo_without'] = [ok0, msg0]
    try:
        apply(patch)
        ok, msg = suite()
        res['suite_with'] = [ok, msg]
        ok1, msg1 = demo(d)
        res['demo_with'] = [ok1, msg1]
    finally:
        undo()
    res['confirmed'] = bool(res['suite_with'][0] and res['demo_without'][0] is True and res['demo_with'][0] is False)
    print(json.dumps(res, indent=1))
    return res


def run(d, props):
    if not clean():
        raise SystemExit('/repo is not clean')
    meta = {}
    mp = os.path.join(d, 'meta.json')
    if os.path.exists(mp):
        meta = json.load(open(mp))
    if not props:
        props = [meta.get('property')] if meta.get('property') else ALL
    if props == ['ALL']:
        props = ALL
    patch = os.path.join(d, 'patch.diff')
    save = tempfile.mkdtemp(prefix='evsave')
    shutil.copytree(os.path.join(HERE, 'evidence'), os.path.join(save, 'evidence'))
    results = {}
    try:
        apply(patch)
        for p in props:
            t0 = time.time()
            rc, out = sh('./check %s --tier %s' % (p, os.environ.get('SEED_TIER', 'quick')), cwd=HERE)
            lines = [l for l in out.splitlines() if l.startswith('VIOLATION') or l.startswith('KNOWN-FINDING') or l.startswith('HARNESS')]
            results[p] = {'exit': rc, 'wall_s': round(time.time() - t0, 1), 'violations': len([l for l in lines if l.startswith('VIOLATION')]),
                          'first': [l[:300] for l in lines if l.startswith(('VIOLATION', 'HARNESS'))][:3]}
            print('%s exit=%d violations=%d %.0fs %s' % (p, rc, results[p]['violations'], time.time() - t0,
                                                          (results[p]['first'] or [''])[0][:200]))
    finally:
        undo()
        shutil.rmtree(os.path.join(HERE, 'evidence'))
        shutil.copytree(os.path.join(save, 'evidence'), os.path.join(HERE, 'evidence'))
        shutil.rmtree(save)
        shutil.rmtree(os.path.join(HERE, 'replays'), ignore_errors=True)
        os.makedirs(os.path.join(HERE, 'replays'), exist_ok=True)
        open(os.path.join(HERE, 'replays', '.gitkeep'), 'w').close()
    rp = os.path.join(d, 'result.json')
    old = json.load(open(rp)) if os.path.exists(rp) else {}
    old.update(results)
    json.dump(old, open(rp, 'w'), indent=1, sort_keys=True)
    return results


if __name__ == '__main__':
    if len(sys.argv) < 3:
        raise SystemExit(__doc__)
    if sys.argv[1] == 'verify':
        verify(sys.argv[2])
    else:
        run(sys.argv[2], sys.argv[3:])
