#!/venv/bin/python
"""Re-splices the generated parts of DESIGN.md: section 7's table of seeded changes (from seeded/*/meta.json)."""
import os, re, subprocess
HERE = os.path.dirname(os.path.dirname(os.path.abspath(__file__)))
p = os.path.join(HERE, 'DESIGN.md')
s = open(p).read()
table = subprocess.check_output([os.path.join(HERE, 'tools', 'seed_table.py')], universal_newlines=True)
n = table.count('\n') - 2
missed = table.count('missed, then caught')
notdet = sum(1 for line in table.splitlines() if line.startswith('| C') and line.split('|')[4].strip() == 'NOT DETECTED')
begin, end = '<!-- seeded-table:begin -->', '<!-- seeded-table:end -->'
rows = [line.split('|') for line in table.splitlines() if line.startswith('| C')]
first = sum(1 for r in rows if r[5].strip() == 'caught')
later = sum(1 for r in rows if r[5].strip() != 'caught' and r[4].strip() != 'NOT DETECTED')
block = '%s\n%d seeded changes; %d caught by the quick tier at the first run, %d missed at first and caught after a check was strengthened (by the property\'s own check, or, where the row says so, by a neighbouring one), %d still not detected.\n\n%s%s' % (
    begin, n, first, later, notdet, table, end)
s = s[:s.index(begin)] + block + s[s.index(end) + len(end):]
open(p, 'w').write(s)
print('DESIGN.md section 7: %d seeded changes' % n)
