#!/venv/bin/python
"""Prints the markdown table of seeded changes for DESIGN.md section 7 from seeded/*/meta.json."""
import glob, json, os
rows = []
for d in sorted(glob.glob(os.path.join(os.path.dirname(os.path.dirname(os.path.abspath(__file__))), 'seeded', '*'))):
    mp = os.path.join(d, 'meta.json')
    if not os.path.exists(mp):
        continue
    m = json.load(open(mp))
    det = ', '.join(sorted(m.get('detected_by', {}))) or 'NOT DETECTED'
    first = 'missed, then caught after: ' + m['history'].split(';', 1)[-1].strip() if m.get('history') else 'caught'
    rows.append('| %s | %s | %s | %s | %s |' % (m['id'], m['breaks'].replace('|', '/'), m['needs_to_manifest'].replace('|', '/'), det, first))
print('| id | change | needs to manifest | detected by (quick tier) | first run |')
print('|---|---|---|---|---|')
print('\n'.join(rows))
