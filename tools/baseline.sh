#!/bin/sh
# Runs the repository's pinned suite with every verification guard OFF and compares with BASELINE.json:
# every stable_pass test must pass.  Exit 0 = matches the baseline.
unset HSZINC_VERIF
OUT=$(mktemp /tmp/hszinc-baseline.XXXXXX.xml)
cd /repo && /venv/bin/python -m pytest -q -p no:cacheprovider --timeout=900 --continue-on-collection-errors --junitxml="$OUT" >/dev/null 2>&1
/venv/bin/python - "$OUT" <<'PY'
import json, sys, xml.etree.ElementTree as ET
base = json.load(open('/root/.vp/BASELINE.json'))
want = set(base['stable_pass'])
passed = set()
for tc in ET.parse(sys.argv[1]).getroot().iter('testcase'):
    bad = [c.tag for c in tc if c.tag in ('failure', 'error', 'skipped')]
    if not bad:
        passed.add('%s::%s' % (tc.get('classname'), tc.get('name')))
missing = sorted(want - passed)
print('baseline: %d expected to pass, %d passed, %d missing' % (len(want), len(passed & want), len(missing)))
for m in missing[:20]:
    print('  MISSING', m)
sys.exit(1 if missing else 0)
PY
rc=$?
rm -f "$OUT"
exit $rc
