#!/bin/sh
# Validates MANIFEST.json and every evidence file against the schemas (jsonschema lives in python3-vt).
cd "$(dirname "$0")/.."
python3-vt - <<'PY'
import json, glob, sys, jsonschema
ok = True
ms = json.load(open('/root/.vp/MANIFEST.schema.json'))
es = json.load(open('/root/.vp/EVIDENCE.schema.json'))
try:
    jsonschema.validate(json.load(open('MANIFEST.json')), ms); print('MANIFEST.json valid')
except Exception as e:
    ok = False; print('MANIFEST.json INVALID', e)
for p in sorted(glob.glob('evidence/*.json')):
    try:
        jsonschema.validate(json.load(open(p)), es); print(p, 'valid')
    except Exception as e:
        ok = False; print(p, 'INVALID', str(e)[:300])
sys.exit(0 if ok else 1)
PY
