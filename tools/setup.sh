#!/bin/sh
# Offline setup: nothing to build (hszinc is imported from /repo's working tree); verify the interpreter,
# the repository import and the reference self-tests.
set -e
cd "$(dirname "$0")/.."
mkdir -p evidence replays
PYTHONDONTWRITEBYTECODE=1 /venv/bin/python - <<'PY'
import sys
sys.path[:0] = ['/repo', '.']
import hszinc, pyparsing, pytz
from mc import explore, runner
from ref import selftest
n = selftest.zinc_selftest(1) + selftest.json_selftest(1)
print('setup ok: hszinc', hszinc.__version__, 'pyparsing', pyparsing.__version__, '; reference self-test:', n, 'renderings re-read')
PY
