#!/bin/sh
# tools/import_seed.sh Cnn mN  : copy /tmp/seed_Cnn/mN into seeded/Cnn-mN, verify it, run its property's check
P=$1; M=$2; D=/verif/seeded/$P-$M
mkdir -p $D && cp /tmp/seed_$P/$M/* $D/ 2>/dev/null
cd /verif
tools/seeded.py verify $D > $D/verify.json 2>&1
CONF=$(grep -c '"confirmed": true' $D/verify.json)
echo "$P-$M confirmed=$CONF"
[ "$CONF" = "1" ] || { cat $D/verify.json | head -20; }
shift; shift
tools/seeded.py run $D ${@:-$P}
