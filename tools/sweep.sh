#!/bin/sh
# tools/sweep.sh <seed> [tier] : runs every check once on the current tree; prints one line per check; exit 1 if any is not silent
cd "$(dirname "$0")/.."
SEED=${1:-0}; TIER=${2:-quick}; BAD=0
for i in 01 02 03 04 05 06 07 08 09 10 11 12 13 14 15 16 17 18 19 20; do
  START=$(date +%s)
  OUT=$(VERIF_SEED=$SEED ./check C$i --tier $TIER 2>/tmp/sweep_err_$i)
  RC=$?
  END=$(date +%s)
  V=$(echo "$OUT" | grep -c '^VIOLATION')
  echo "C$i seed=$SEED tier=$TIER exit=$RC violations=$V $((END-START))s $(echo "$OUT" | tail -1 | cut -c1-160)"
  [ $RC -ne 0 ] && BAD=1
done
exit $BAD
